"""Engine K driver: runs Kani proof harnesses of /verif/kani against /repo's working tree.

Each harness is one `cargo kani --harness <name> --exact` invocation in one of a
few persistent per-slot target directories under /verif/.build (so that
concurrent runs never share a cargo lock). Results are parsed from Kani's
regular output; the only pass is `VERIFICATION:- SUCCESSFUL` with every cover
property satisfied. Timeouts, out-of-memory and anything unparsable are
*inconclusive*, never a pass and never a violation.
"""
import os, re, resource, subprocess, threading, time, queue, shutil, json

VERIF = os.path.dirname(os.path.dirname(os.path.abspath(__file__)))
KANI_CRATE = os.path.join(VERIF, 'kani')
BUILD = os.path.join(VERIF, '.build')


class HarnessResult:
    def __init__(self, name):
        self.name = name
        self.status = 'inconclusive'   # 'pass' | 'fail' | 'inconclusive'
        self.reason = ''
        self.checks_total = 0
        self.checks_failed = 0
        self.failed_checks = []        # [(check name, description, location)]
        self.covers_total = 0
        self.covers_sat = 0
        self.covers = []               # [(description, status)]
        self.solver_s = 0.0
        self.verif_s = 0.0
        self.wall_s = 0.0
        self.vars = 0
        self.clauses = 0
        self.log = ''
        self.unwind_failed = False
        self.stubs = []

    def to_json(self):
        return {k: getattr(self, k) for k in (
            'name', 'status', 'reason', 'checks_total', 'checks_failed', 'failed_checks',
            'covers_total', 'covers_sat', 'solver_s', 'verif_s', 'wall_s', 'vars', 'clauses', 'stubs')}


def _limits(mem_gb):
    def f():
        lim = int(mem_gb * (1 << 30))
        resource.setrlimit(resource.RLIMIT_AS, (lim, lim))
        os.setsid()
    return f


def parse_output(name, text, res):
    # restrict to the section of this harness
    m = re.search(r'Checking harness ' + re.escape(name) + r'\.\.\.', text)
    sec = text[m.start():] if m else text
    for cm in re.finditer(r'Check \d+: ([^\n]+)\n\s+- Status: (\w+)\n\s+- Description: "(.*?)"\n(?:\s+- Location: ([^\n]*)\n)?', sec, re.S):
        cname, status, desc, loc = cm.groups()
        desc = ' '.join(desc.split())
        if '.cover.' in cname or cname.startswith('cover'):
            res.covers.append((desc, status))
            continue
        res.checks_total += 1
        if status not in ('SUCCESS', 'UNREACHABLE'):
            res.failed_checks.append((cname, desc, loc or '', status))
    res.covers_total = len(res.covers)
    res.covers_sat = sum(1 for _, s in res.covers if s == 'SATISFIED')
    res.checks_failed = sum(1 for c in res.failed_checks if c[3] == 'FAILURE')
    res.unwind_failed = any('unwind' in c[0] for c in res.failed_checks)
    res.solver_s = sum(float(x) for x in re.findall(r'Runtime Solver: ([0-9.e+-]+)s', sec))
    vm = re.findall(r'(\d+) variables, (\d+) clauses', sec)
    if vm:
        res.vars, res.clauses = int(vm[-1][0]), int(vm[-1][1])
    tm = re.search(r'Verification Time: ([0-9.]+)s', sec)
    if tm:
        res.verif_s = float(tm.group(1))
    res.stubs = re.findall(r'- Stub: (.*)', sec)
    if 'VERIFICATION:- SUCCESSFUL' in sec:
        if res.covers_total != res.covers_sat:
            res.status = 'inconclusive'
            bad = [d for d, s in res.covers if s != 'SATISFIED']
            res.reason = 'vacuity guard: cover not satisfied: ' + '; '.join(bad)
        elif res.failed_checks:
            res.status = 'inconclusive'
            res.reason = 'undetermined checks: ' + '; '.join(c[0] for c in res.failed_checks)
        else:
            res.status = 'pass'
    elif 'VERIFICATION:- FAILED' in sec:
        real = [c for c in res.failed_checks if c[3] == 'FAILURE']
        if not real:
            res.status = 'inconclusive'
            res.reason = 'FAILED without a failing check (solver error / out of memory?)'
        elif all('unwind' in c[0] for c in real):
            res.status = 'inconclusive'
            res.reason = 'unwinding assertion failed: the unwind bound of this harness is too small for the current code'
        else:
            res.status = 'fail'
            res.reason = '; '.join('%s: %s @ %s' % (c[0], c[1], c[2]) for c in real[:6])
    else:
        res.status = 'inconclusive'
        if 'error: could not compile' in text or 'error[' in text:
            res.reason = 'harness crate does not compile against the current /repo tree'
        else:
            res.reason = 'no verdict in Kani output'
    return res


def run_one(name, slot, timeout_s, mem_gb, extra_args=(), rustflags_cfg=()):
    res = HarnessResult(name)
    tdir = os.path.join(BUILD, 'kani-slot%d' % slot)
    os.makedirs(tdir, exist_ok=True)
    cmd = ['cargo', 'kani', '--target-dir', tdir, '--harness', name, '--exact',
           '--output-format', 'regular'] + list(extra_args)
    env = dict(os.environ, CARGO_NET_OFFLINE='true')
    env.pop('RUSTUP_TOOLCHAIN', None)
    if rustflags_cfg:
        env['RUSTFLAGS'] = ' '.join('--cfg ' + c for c in rustflags_cfg)
    t0 = time.time()
    try:
        p = subprocess.Popen(cmd, cwd=KANI_CRATE, env=env, stdout=subprocess.PIPE,
                             stderr=subprocess.STDOUT, preexec_fn=_limits(mem_gb), text=True)
        try:
            out, _ = p.communicate(timeout=timeout_s)
        except subprocess.TimeoutExpired:
            try:
                os.killpg(p.pid, 9)
            except ProcessLookupError:
                pass
            out, _ = p.communicate()
            res.wall_s = time.time() - t0
            res.log = out
            res.reason = 'timeout after %ds' % timeout_s
            return res
    except Exception as e:  # pragma: no cover
        res.reason = 'could not run cargo kani: %r' % (e,)
        return res
    res.wall_s = time.time() - t0
    res.log = out
    parse_output(name, out, res)
    if res.status == 'inconclusive' and not res.reason:
        res.reason = 'exit status %s' % p.returncode
    if res.status == 'inconclusive' and re.search(r'(std::bad_alloc|Out of memory|out of memory|Killed|SIGKILL|memory exhausted)', out):
        res.reason = 'out of memory (limit %d GB): ' % mem_gb + res.reason
    return res


def run_harnesses(names, jobs=6, timeout_s=600, mem_gb=20, log_dir=None, extra_args=(), on_result=None, per_harness_args=None):
    """run all harnesses, `jobs` at a time. Returns {name: HarnessResult}."""
    q = queue.Queue()
    for n in names:
        q.put(n)
    results = {}
    lock = threading.Lock()
    jobs = max(1, min(jobs, len(names)))

    def worker(slot):
        while True:
            try:
                n = q.get_nowait()
            except queue.Empty:
                return
            r = run_one(n, slot, timeout_s, mem_gb, list(extra_args) + list((per_harness_args or {}).get(n, [])))
            if log_dir:
                os.makedirs(log_dir, exist_ok=True)
                with open(os.path.join(log_dir, n.replace('::', '__') + '.log'), 'w') as f:
                    f.write(r.log)
            with lock:
                results[n] = r
            if on_result:
                on_result(r)

    # slot 0 first compiles alone (so that a compile error is reported once and
    # quickly); the other slots start from a copy of its target directory.
    base = int(os.environ.get('VERIF_SLOT_BASE', '0'))
    ths = [threading.Thread(target=worker, args=(base + i,)) for i in range(jobs)]
    for t in ths:
        t.start()
    for t in ths:
        t.join()
    return results


def playback(name, slot=0, timeout_s=900, extra_args=()):
    """Concrete playback of a failing harness: returns (test_source or None, log)."""
    tdir = os.path.join(BUILD, 'kani-slot%d' % slot)
    cmd = ['cargo', 'kani', '--target-dir', tdir, '--harness', name, '--exact',
           '-Z', 'concrete-playback', '--concrete-playback=print', '--output-format', 'regular'] + list(extra_args)
    env = dict(os.environ, CARGO_NET_OFFLINE='true')
    env.pop('RUSTUP_TOOLCHAIN', None)
    try:
        p = subprocess.run(cmd, cwd=KANI_CRATE, env=env, stdout=subprocess.PIPE, stderr=subprocess.STDOUT,
                           text=True, timeout=timeout_s)
    except subprocess.TimeoutExpired:
        return None, 'timeout'
    out = p.stdout
    # Kani prints one test per satisfied cover as well as per failed check: keep only those for failed checks
    blocks = re.findall(r'```\n(.*?)```', out, re.S)
    keep = [b for b in blocks if not re.search(r'Check for `cover`', b)]
    if not keep:
        return None, out
    return '\n'.join(keep), out
