"""Replay of a stored Engine M counterexample (JSON written by mirsym/mworker.py) against the native crate."""
import os, subprocess

VERIF = os.path.dirname(os.path.dirname(os.path.abspath(__file__)))


def replay_file(path):
    p = subprocess.run(['/usr/local/bin/python3-vt', os.path.join(VERIF, 'mirsym', 'mreplay_cli.py'), path], cwd=VERIF, capture_output=True, text=True)
    out = p.stdout.strip().split('\n')[-1] if p.stdout.strip() else ''
    if out.startswith('REPRODUCES'):
        return True, out
    if out.startswith('DOES-NOT-REPRODUCE'):
        return False, out
    return None, 'replay failed to run: ' + (p.stderr[-800:] or p.stdout[-800:])
