import sys, os
sys.path.insert(0, os.path.dirname(os.path.abspath(__file__)))
import kani_runner
names = sys.argv[1:]
tmo = int(os.environ.get('TMO', '900'))
res = kani_runner.run_harnesses(names, jobs=int(os.environ.get('JOBS', '6')), timeout_s=tmo, log_dir='/verif/.build/logs/dev',
                                on_result=lambda r: print(r.name, r.status, r.reason[:300], round(r.wall_s), r.checks_total, r.covers_sat, r.covers_total, flush=True))
