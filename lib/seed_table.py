#!/usr/bin/env python3
"""prints the markdown table of seeded changes and which checks caught them (from seeded/*/check_results.json)"""
import json, os, glob
HERE = os.path.dirname(os.path.dirname(os.path.abspath(__file__)))
rows = []
for d in sorted(glob.glob(os.path.join(HERE, 'seeded', 'S*'))):
    meta = json.load(open(os.path.join(d, 'meta.json')))
    res = {}
    p = os.path.join(d, 'check_results.json')
    if os.path.exists(p):
        res = json.load(open(p))
    what = meta.get('summary') or meta['author_notes'].strip().split('\n')[0][:140]
    caught = ', '.join('%s (%ds)' % (k, v['wall_s']) for k, v in res.items() if v['exit'] == 1) or '-'
    missed = ', '.join('%s (exit %d)' % (k, v['exit']) for k, v in res.items() if v['exit'] != 1) or '-'
    rows.append('| %s | %s | %s | %s | %s |' % (meta['id'], meta['breaks_property'], what.replace('|', '/'), caught, missed))
print('| seed | breaks | change | caught by (quick tier, wall) | run but not caught |')
print('|---|---|---|---|---|')
print('\n'.join(rows))
