#!/usr/bin/env python3
"""Regenerates MANIFEST.json from the table below (run by hand after changing claims)."""
import json, os
HERE = os.path.dirname(os.path.dirname(os.path.abspath(__file__)))
props = [json.loads(l) for l in open(os.path.join(HERE, 'properties.jsonl'))]

K = 'bounded model checking of the real compiled code with Kani/CBMC (symbolic inputs, SAT verdict over all inputs in the bound, unwinding assertions on, cover-based vacuity guard, concrete playback before reporting)'
M = 'symbolic execution of the crate\'s rustc MIR with SMT (z3) path summaries: every path condition is solver-checked, the property is an unsat query per path over all inputs up to LMAX bytes, counterexamples replayed on the native crate'
KMV2 = 'bounded model checking of the real compiled code with Kani/CBMC (bounded buffers) + SMT-based symbolic execution of the crate\'s rustc MIR (mirsym, z3) on an input of unbounded symbolic length, each path checked against a reference decoder written as a formula; both regenerate their encoding from /repo on every run and replay counterexamples natively'
KM = 'bounded model checking with Kani/CBMC for the v2 half + SMT-based symbolic execution of the crate\'s rustc MIR (mirsym, z3) for the v1 half; both regenerate their encoding from /repo on every run and replay counterexamples natively'
CLAIMS = {
    # id: (engine, technique, level text, level note)
    'C01': ('M', M, 'Bounded: every input of at most LMAX = 112 (quick) / 128 (thorough) bytes to both v1 entry points; each feasible path of the MIR is checked against a declarative grammar oracle (Ok <=> well-formed line; decoded fields = written fields).', 'trusts the std models of mirsym (validated against the native crate on one witness per path and on the repo\'s test literals, every run), z3, and the grammar oracle in mirsym/oracles.py; std\'s address grammar is uninterpreted (contract facts only)'),
    'C02': ('K+M', KMV2, 'Bounded: K: all 240-byte buffers x all lengths, decided by SAT over the compiled parser against an independent reference decoder; M: the parser\'s MIR on S[0, L) for every input length 0 <= L <= isize::MAX (every declared length 0..65535 actually present): each of the 82 feasible paths must return the verdict, payload, decoded addresses and header slice of the reference decoder formula.', 'trusts Kani/CBMC, the reference decoders (kani/src/refmodel.rs, mirsym/props_v2.py), mirsym\'s v2 models and z3'),
    'C03': ('K+M', KM, 'Bounded: v2 parser + every accessor on all 240-byte buffers, TLV iteration on every section <= 24 (48 thorough) bytes (Kani\'s panic/overflow/bounds/unwinding checks are the property); v1 text entry + views + Display, v1 byte entry, auto-detection glue and PartialResult impls on every input <= LMAX = 112 bytes (no Panic outcome on any feasible MIR path; FromStr impls in the thorough tier); v2 parser, accessors and one TLV iterator step from any reachable cursor state again in Engine M with NO length bound.', 'trusts Kani/CBMC, mirsym\'s std models (incl. the slicing / char-boundary panics they raise) and z3; core::fmt internals and thiserror-generated Display outside the claim'),
    'C04': ('K+M', KM, 'Bounded: v2: every accepted header within 240 bytes re-parsed at every longer/shorter length and with a different trailer (64 B); v1: two instances of the path summary over buffers agreeing on the header, LMAX = 64 (quick; plus the accepted UNKNOWN lines - the only ones that can exceed 104 bytes - at LMAX = 112) / 112 (thorough); v2 again in Engine M with NO length bound (two lengths of the same byte stream: every L2 >= 16 + len, incl. the header alone, is accepted identically).', 'trusts Kani/CBMC, mirsym models and z3; auto-detection by composition with C06'),
    'C05': ('K+M', KM, 'Bounded: every cut of every accepted header: v2 within 240 bytes; v1 (US-ASCII lines) LMAX = 64 (quick; plus the accepted UNKNOWN lines at LMAX = 112) / 112 (thorough) via "no incomplete path is taken on the prefix"; flags from executing the PartialResult MIR on every outcome; v2 again in Engine M with NO length bound (every L2 < 16 + len of the same stream is an incomplete error).', 'trusts Kani/CBMC, mirsym models and z3; auto-detection by composition with C06'),
    'C06': ('K+M', KM, 'HeaderResult::parse + PartialResult impls executed (MIR) on every pair of results the two dedicated parsers can return (exhaustive over variants, opaque payloads); "never both": v1 accepts only inputs starting with P (M, LMAX = 112), v2 only inputs starting with the signature (K, 240 B).', 'trusts mirsym\'s MIR executor and Kani/CBMC; the dedicated parsers themselves are C01/C02'),
    'C07': ('K+M', 'bounded model checking with Kani/CBMC (reference encoder + parse back) + SMT-based symbolic execution of the builder MIR for the wire bytes with unbounded value lengths (mirsym)', 'Bounded: K: every command/transport/address value, TLV lists of <= 2 items with literal value lengths, bytes compared with an independent reference encoder and parsed back; M: wire bytes of both constructors (IPv4, Unix with sparse symbolic content) and of one / two writes with value lengths as unbounded integers.', 'trusts Kani/CBMC, the reference encoder in kani/src/c07.rs, mirsym models; TLV lists of more than 2 items outside the claim'),
    'C08': ('M', M, 'All address values (symbolic 32/128-bit addresses and ports): the Display template is decoded from the MIR, the formatted text is constrained symbolically and must be accepted with the same value by all four text entry points (LMAX = 112) and be <= 107 bytes.', 'std\'s Display/FromStr of u16 and IpAddr are contract axioms (canonical decimal; from_str(display(a)) == a; 7..15 / 2..39 bytes); Header Display is covered by C15'),
    'C09': ('K+M', 'bounded model checking with Kani/CBMC (fixed call-kind sequences, all values symbolic, real Vec) + SMT-based symbolic execution of the builder\'s MIR over all call sequences with unbounded payload sizes (mirsym)', 'Bounded: K: 43 (quick) + 125 (thorough) fixed-kind histories of <= 4 calls (incl. lazy / empty / by-reference batches); M: every sequence of <= 2 (quick) / 3 (thorough) calls over a 10-operation menu (incl. batches and hand-built TLV values) after both constructors with payload sizes as unbounded integers (65535/65536 boundaries included), against a ghost history interpreter.', 'trusts Kani/CBMC, mirsym\'s Vec/io::Write models, z3 and the ghost interpreters (kani/src/c09.rs, mirsym/props_b.py)'),
    'C10': ('K+M', 'same two engines as C09 with the whole-output oracle', 'Bounded: same histories as C09; the built bytes must be signature, control bytes, length, address block and the encodings in call order (K: bytewise on the real Vec; M: segment lists with unbounded sizes); batch vs single writes and capacity reservations are call kinds.', 'capacity is not modelled in M (that clause rests on K); same trusted base as C09'),
    'C11': ('K+M', KMV2, 'Bounded: K: every TLV section of <= 16 bytes (24 thorough) walked completely against a reference cursor, long values via a 300-byte section with symbolic head; M: one next() from an arbitrary reachable cursor state of a section of ANY length equals one step of the standard walk, preserves the cursor invariant and makes progress (inductive step; the whole-walk statement follows by induction on the cursor, argued in DESIGN.md 11.7, not machine-checked), and tlvs() of every accepted header starts that walk at the payload tail.', 'trusts Kani/CBMC, mirsym\'s v2 models and z3'),
    'C12': ('K+M', KM, 'Bounded: v2: every well-formed header within 240 bytes with one element replaced by every invalid value, plus exact blame on arbitrary input; v1: every input <= LMAX = 112 that is a well-formed line with exactly one corrupted element (9 corruption classes, general token positions) must take a path with the named terminal error; v2 blame (variant + payload + terminal flag) again in Engine M for every input length.', 'trusts Kani/CBMC, mirsym models, z3 and the oracles'),
    'C13': ('K+M', KMV2, 'Bounded: K: one harness per literal (control bytes, payload size) pair, all contents symbolic, rebuilt four ways and compared byte for byte on the real Vec; M: parser MIR + builder MIR composed on headers of ANY length: rebuilt from the raw views, through the TypeLengthValues encoder, from the decoded address value, and item by item for well-formed sections of <= 2 (quick) / 3 (thorough) items of any value length; the built segment list must be S[0, 16 + len).', 'trusts Kani/CBMC, mirsym\'s Vec / io::Write / v2 models and z3; K: views are copied element-wise into local arrays before re-encoding (DESIGN.md 11.2)'),
    'C14': ('K+M', KMV2, 'Bounded: K: every accepted header within all 240-byte buffers, every accessor identity asserted; M: the MIR of all 17 accessors / conversions on every accepted header of ANY length against the partition the property states.', 'trusts Kani/CBMC, mirsym\'s v2 models and z3'),
    'C15': ('M', M, 'Bounded: every accepted well-formed line <= LMAX = 112: protocol(), addresses_str() and Display::fmt are executed (MIR) on the returned header on the same path and compared with the line.', 'trusts mirsym models and z3'),
    'C16': ('K+M', 'modular SMT check (parse_header / try_from(&str) as an uninterpreted function of its argument slice; the duplicated window logic, from_utf8, map_err and FromStr glue executed from MIR) + Kani/CBMC for owned copies', 'Bounded: every valid-UTF-8 text <= LMAX = 112 for the agreement of the four entry points (thorough: monolithic four-summary cross-check at LMAX = 40); owned copies of v2 headers (48 B), TLVs (16 B), v1 headers (16 B text) with the source buffer overwritten.', 'trusts mirsym, z3, Kani/CBMC'),
    'C17': ('K+M', KMV2, 'Bounded: K: all 240-byte buffers x all lengths x all completion lengths; M: exact counts for every input length and every declared length, and the completion clause as a relation between two lengths L < L2 of the same byte stream (L2 = 16 + len gives success, anything between gives Partial(L2 - 16, len)), no length bound.', 'trusts Kani/CBMC, the reference decoders, mirsym\'s v2 models and z3'),
    'C18': ('M', M, 'Bounded: every input <= LMAX = 112 / 128 to both v1 entry points: no feasible path with an incomplete verdict is compatible with "first CR followed by a byte, or 107 bytes without CR".', 'trusts mirsym models and z3'),
    'C19': ('K', K, 'All values of the argument types for the listed generic instantiations (no size bound needed: straight-line code).', 'trusts Kani/CBMC; other generic instantiations outside the claim'),
    'C20': ('K+M', 'bounded model checking with Kani/CBMC (every impl, all value bits) + SMT-based symbolic execution of the builder/writer MIR for the size and limit clauses (mirsym)', 'Bounded: K: every WriteToHeader impl, literal value lengths {0,1,3,5,300}, refusal for 65536/70000-byte values; M: every call sequence of <= 2 / 3 writes with unbounded sizes: a write fails only for an oversized value or when the encoding would pass the writer\'s limit; and every WriteToHeader impl called directly on a writer holding an arbitrary prefix of 0..65551 bytes with unbounded value lengths: returned count, appended bytes, to_bytes, refusal.', 'trusts Kani/CBMC, mirsym models; TLV/slice values of 301..65535 bytes are covered for size arithmetic only (M), not bytewise'),
}
NOT_YET = 'not claimed'

man = {
    'version': 1,
    'setup_cmd': './setup.sh',
    'hooks': {'guard': 'ppp_verif', 'enable': 'none needed: Engine K drives the public API from an external crate (/verif/kani), Engine M reads private functions from the MIR dump; no source hooks exist',
              'baseline_off_cmd': 'cd /repo && cargo test --workspace --no-fail-fast --offline', 'source_commits': [], 'add_only': True},
    'engines': [
        {'name': 'K', 'path': 'kani/', 'serves_properties': sorted(k for k, v in CLAIMS.items() if 'K' in v[0]),
         'kind_free_text': 'Kani 0.68 / CBMC 6.11 proof harnesses over the real crate (path dependency on /repo), SAT-decided within stated bounds'},
        {'name': 'M', 'path': 'mirsym/', 'serves_properties': sorted(k for k, v in CLAIMS.items() if 'M' in v[0]),
         'kind_free_text': 'mirsym: MIR->SMT symbolic executor written for this task (rustc -Zunpretty=mir of /repo, z3), std callees replaced by documented semantic models'},
    ],
    'checks': [],
    'notes': 'All checks: ./check <ID> [--tier quick|thorough]; exit 0 held / 1 VIOLATION (replayed natively first) / 2 inconclusive. Fixed defects are listed in known_findings.json. See DESIGN.md.',
    'not_applicable': [],
}
for p in props:
    pid = p['id']
    if pid in CLAIMS:
        eng, tech, text, note = CLAIMS[pid]
        man['checks'].append({
            'property_id': pid,
            'quick_cmd': './check %s --tier quick' % pid,
            'thorough_cmd': './check %s --tier thorough' % pid,
            'evidence_file': 'evidence/%s.json' % pid,
            'replay_cmd_template': './check %s --replay {path}' % pid,
            'engine': eng,
            'level_claimed': {'category': 'model_checking', 'text': text + ' Nothing is claimed outside the stated bound.', 'design_ref': 'DESIGN.md section 6, ' + pid},
            'level_note': note,
            'technique': tech,
        })
    else:
        man['not_applicable'].append({'property_id': pid, 'reason': NOT_YET})
json.dump(man, open(os.path.join(HERE, 'MANIFEST.json'), 'w'), indent=1)
print('claimed', len(man['checks']), 'not applicable', len(man['not_applicable']))
