#!/usr/bin/env python3
"""Regenerates MANIFEST.json from the table below (run by hand after changing claims)."""
import json, os
HERE = os.path.dirname(os.path.dirname(os.path.abspath(__file__)))
props = [json.loads(l) for l in open(os.path.join(HERE, 'properties.jsonl'))]

K = 'bounded model checking of the real compiled code with Kani/CBMC (symbolic inputs, SAT verdict over all inputs in the bound, unwinding assertions on, cover-based vacuity guard, concrete playback before reporting)'
M = 'symbolic execution of the crate\'s rustc MIR with SMT (z3) path summaries: every path condition is solver-checked, the property is an unsat query per path over all inputs up to LMAX bytes, counterexamples replayed on the native crate'
CLAIMS = {
    # id: (engine, technique, level text, level note)
    'C02': ('K', K, 'Bounded: all 240-byte buffers x all lengths, decided by SAT over the compiled parser against an independent reference decoder.', 'trusts Kani/CBMC and the reference decoder in kani/src/refmodel.rs; headers longer than 240 bytes outside the claim'),
    'C07': ('K', K, 'Bounded: every command/transport/address value, TLV lists of <= 2 items with literal value lengths, bytes compared with an independent reference encoder and parsed back.', 'trusts Kani/CBMC and the reference encoder in kani/src/c07.rs; value lengths outside the instantiated literals and encodings near 65535 bytes are outside the claim'),
    'C09': ('K', K, 'Bounded: every fixed sequence of builder call kinds listed in kani/c09_harnesses.json (all 2-step sequences over 5 kinds + selected longer ones; all 125 3-step sequences in the thorough tier) with every value symbolic, against a ghost history interpreter.', 'trusts Kani/CBMC and the ghost interpreter in kani/src/c09.rs; histories longer than 4 calls and totals near 65535 bytes are outside the claim'),
    'C10': ('K', K, 'Bounded: same harness family as C09 with the whole-output oracle (signature, control bytes, address block, encodings in call order), batch vs single writes and capacity reservations included as call kinds.', 'trusts Kani/CBMC and the ghost interpreter in kani/src/c09.rs; same bounds as C09'),
    'C11': ('K', K, 'Bounded: every TLV section of <= 16 bytes (24 thorough) walked completely against a reference cursor, long values via a 300-byte section with symbolic head.', 'trusts Kani/CBMC; sections longer than 24 bytes with fully symbolic content and 65535-byte values outside the claim'),
    'C13': ('K', K, 'Bounded: one harness per literal (control bytes, payload size) pair, all contents symbolic, rebuilt four ways and compared byte for byte.', 'trusts Kani/CBMC; views are copied element-wise into local arrays before re-encoding (see DESIGN.md); other sizes outside the claim'),
    'C14': ('K', K, 'Bounded: every accepted header within all 240-byte buffers, every accessor identity asserted.', 'trusts Kani/CBMC; headers longer than 240 bytes outside the claim'),
    'C17': ('K', K, 'Bounded: all 240-byte buffers x all lengths x all completion lengths.', 'trusts Kani/CBMC and the reference decoder; completion beyond 240 bytes outside the claim'),
    'C19': ('K', K, 'All values of the argument types for the listed generic instantiations (no size bound needed: straight-line code).', 'trusts Kani/CBMC; other generic instantiations outside the claim'),
    'C20': ('K', K, 'Bounded: every WriteToHeader impl, all value bits symbolic, literal value lengths {0,1,3,5,300}, refusal for 65536/70000-byte values (every length in (65535,70000] thorough).', 'trusts Kani/CBMC; TLV/slice values of 301..65535 bytes bytewise outside the claim'),
}
NOT_YET = 'check under construction in this session (Engine M for the v1 text parser half); not claimed until its machinery is committed (DESIGN.md section 9)'

man = {
    'version': 1,
    'setup_cmd': './setup.sh',
    'hooks': {'guard': 'ppp_verif', 'enable': 'none needed: Engine K drives the public API from an external crate (/verif/kani), Engine M reads private functions from the MIR dump; no source hooks exist',
              'baseline_off_cmd': 'cd /repo && cargo test --workspace --no-fail-fast --offline', 'source_commits': [], 'add_only': True},
    'engines': [
        {'name': 'K', 'path': 'kani/', 'serves_properties': sorted(k for k, v in CLAIMS.items() if 'K' in v[0]),
         'kind_free_text': 'Kani 0.68 / CBMC 6.11 proof harnesses over the real crate (path dependency on /repo), SAT-decided within stated bounds'},
        {'name': 'M', 'path': 'mirsym/', 'serves_properties': sorted(k for k, v in CLAIMS.items() if 'M' in v[0]),
         'kind_free_text': 'mirsym: MIR->SMT symbolic executor written for this task (rustc -Zunpretty=mir of /repo, z3), std callees replaced by documented semantic models'},
    ],
    'checks': [],
    'notes': 'All checks: ./check <ID> [--tier quick|thorough]; exit 0 held / 1 VIOLATION (replayed natively first) / 2 inconclusive. Fixed defects are listed in known_findings.json. See DESIGN.md.',
    'not_applicable': [],
}
for p in props:
    pid = p['id']
    if pid in CLAIMS:
        eng, tech, text, note = CLAIMS[pid]
        man['checks'].append({
            'property_id': pid,
            'quick_cmd': './check %s --tier quick' % pid,
            'thorough_cmd': './check %s --tier thorough' % pid,
            'evidence_file': 'evidence/%s.json' % pid,
            'replay_cmd_template': './check %s --replay {path}' % pid,
            'engine': eng,
            'level_claimed': {'category': 'model_checking', 'text': text + ' Nothing is claimed outside the stated bound.', 'design_ref': 'DESIGN.md section 6, ' + pid},
            'level_note': note,
            'technique': tech,
        })
    else:
        man['not_applicable'].append({'property_id': pid, 'reason': NOT_YET})
json.dump(man, open(os.path.join(HERE, 'MANIFEST.json'), 'w'), indent=1)
print('claimed', len(man['checks']), 'not applicable', len(man['not_applicable']))
