#!/usr/bin/env python3
"""seed_confirm.py <agent-out-dir> <seed-id> <PROP> <summary> <needs_to_manifest>

Confirms a sub-agent's breaking change in a fresh scratch worktree of /repo (outside /repo and /verif):
  1. `git apply patch.diff`, `cargo test --offline` must pass (unit + doc tests),
  2. the demonstration (tests/demo.rs) must FAIL with the change,
  3. and PASS after `git checkout -- src`.
Only then is it stored as /verif/seeded/<seed-id>/ (patch.diff, demo.rs, meta.json). The worktree and its
build output are removed afterwards."""
import json, os, shutil, subprocess, sys

VERIF = os.path.dirname(os.path.dirname(os.path.abspath(__file__)))
src, sid, prop, summary, needs = sys.argv[1:6]
wt = '/tmp/seedconfirm-%s' % sid
env = dict(os.environ, CARGO_NET_OFFLINE='true', CARGO_TARGET_DIR=wt + '/target')


def sh(cmd, **kw):
    return subprocess.run(cmd, shell=True, cwd=wt, env=env, capture_output=True, text=True, **kw)


subprocess.run(['git', '-C', '/repo', 'worktree', 'remove', '--force', wt], capture_output=True)
subprocess.run(['git', '-C', '/repo', 'worktree', 'add', '-q', '--detach', wt, 'HEAD'], check=True)
ok = False
log = []
try:
    r = sh('git apply %s/patch.diff' % src)
    assert r.returncode == 0, 'patch does not apply: ' + r.stderr
    touched = sh('git status --porcelain').stdout
    assert all(l[3:].startswith('src/') for l in touched.split('\n') if l.strip()), 'patch touches files outside src/: ' + touched
    r = sh('cargo test --offline 2>&1 | grep -E "^test result|^error" ')
    log.append('with change, cargo test: ' + r.stdout.strip().replace('\n', ' | '))
    assert 'FAILED' not in r.stdout and 'error' not in r.stdout and r.stdout.count('test result: ok') >= 2, 'existing tests do not pass with the change: ' + r.stdout
    os.makedirs(wt + '/tests', exist_ok=True)
    shutil.copy(src + '/demo.rs', wt + '/tests/demo.rs')
    r = sh('cargo test --offline --test demo 2>&1 | grep -E "^test result|^error"')
    log.append('with change, demo: ' + r.stdout.strip())
    assert 'FAILED' in r.stdout, 'demo does not fail with the change: ' + r.stdout
    sh('git checkout -- src')
    r = sh('cargo test --offline --test demo 2>&1 | grep -E "^test result|^error"')
    log.append('without change, demo: ' + r.stdout.strip())
    assert 'test result: ok' in r.stdout and 'FAILED' not in r.stdout, 'demo does not pass without the change: ' + r.stdout
    ok = True
finally:
    subprocess.run(['git', '-C', '/repo', 'worktree', 'remove', '--force', wt], capture_output=True)
    shutil.rmtree(wt, ignore_errors=True)
print('\n'.join(log))
if ok:
    d = os.path.join(VERIF, 'seeded', sid)
    os.makedirs(d, exist_ok=True)
    shutil.copy(src + '/patch.diff', d + '/patch.diff')
    shutil.copy(src + '/demo.rs', d + '/demo.rs')
    notes = open(src + '/notes.md').read() if os.path.exists(src + '/notes.md') else ''
    json.dump({'id': sid, 'breaks_property': prop, 'origin': 'independent sub-agent given only the property text and a scratch worktree (%s)' % os.path.basename(os.path.dirname(src.rstrip('/'))),
               'author_notes': notes, 'confirmed_by_me': 'lib/seed_confirm.py in a scratch worktree at /repo HEAD: ' + ' ;; '.join(log),
               'needs_to_manifest': needs, 'summary': summary}, open(d + '/meta.json', 'w'), indent=1)
    print('stored', d)
