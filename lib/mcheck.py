"""Engine M property obligations (v1 text parser, glue, builder arithmetic).

Every obligation is an SMT query `axioms AND path-condition AND negated-property` that must be
unsat; `sat` yields concrete input bytes which are replayed on the natively compiled crate
(dev and release) before anything is reported.
"""
import json, os, subprocess, sys, time, random, hashlib

VERIF = os.path.dirname(os.path.dirname(os.path.abspath(__file__)))
sys.path.insert(0, os.path.join(VERIF, 'mirsym'))

PY = '/usr/local/bin/python3-vt'


def run(pid, tier, seed, only_set=None):
    """Runs mworker.py under the tooling venv's python (z3 lives there) and returns its result dict."""
    out = os.path.join(VERIF, '.build', 'mres-%s-%d.json' % (pid, os.getpid()))
    os.makedirs(os.path.dirname(out), exist_ok=True)
    cmd = [PY, os.path.join(VERIF, 'mirsym', 'mworker.py'), pid, tier, str(seed), out]
    if only_set:
        cmd.append(','.join(sorted(only_set)))
    p = subprocess.run(cmd, cwd=VERIF)
    if p.returncode != 0 or not os.path.exists(out):
        return {'engine': 'M: mirsym (failed to run)', 'rule': '', 'queries': 0, 'distinct': 0, 'solver_s': 0.0, 'samples': [],
                'functions': [], 'bounds': [], 'models': [], 'obligations': [], 'violations': [],
                'inconclusive': ['Engine M driver exited with status %s' % p.returncode]}
    res = json.load(open(out))
    os.remove(out)
    res['violations'] = [tuple(v) for v in res['violations']]
    return res
