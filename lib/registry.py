"""Which obligations decide which property, per tier, with their stated bounds."""
import json, os

_HERE = os.path.dirname(os.path.abspath(__file__))
_c09 = json.load(open(os.path.join(_HERE, '..', 'kani', 'c09_harnesses.json')))

# harness -> bound text (goes into the evidence file)
HARNESS_BOUNDS = {}
# harness -> extra `cargo kani` arguments
HARNESS_ARGS = {}

FS300 = ['-Z', 'unstable-options', '--cbmc-args', '--max-field-sensitivity-array-size', '300']


def H(name, bound, args=None):
    HARNESS_BOUNDS[name] = bound
    if args:
        HARNESS_ARGS[name] = args
    return name


B240 = 'all 2^(8*240) buffers x every input length n <= 240 (every control-byte pair; every declared length 0..65535 in relation to <= 240 present bytes)'

K_TRUST = ['Kani 0.68 / CBMC 6.11 model the compiled MIR of ppp and of std (Vec, slices, Cow, io::Write, memcmp/memcpy) faithfully',
           'the reference decoders/encoders in /verif/kani/src/refmodel.rs and in the harnesses transcribe the PROXY protocol specification correctly',
           'io::Error values and output Vecs are mem::forget-ed in harnesses: destructors are outside every claim']

PROPS = {}

PROPS['C02'] = {
    'kani': {'quick': [H('c02::c02_accept_iff_wellformed_240', B240 + '; unwind 14')], 'thorough': []},
    'kani_functions': ['<ppp::v2::Header as TryFrom<&[u8]>>::try_from', 'ppp::v2::parse_addresses', 'ppp::v2::AddressFamily::byte_length'],
    'assumptions': K_TRUST,
    'outside_claim': ['inputs longer than 240 bytes (the parser never reads past 16+216 address bytes; acceptance of longer declared lengths is covered only as Partial verdicts)'],
}

PROPS['C14'] = {
    'kani': {'quick': [H('c14::c14_views_partition_240', B240 + '; every accessor on every accepted header; unwind 14')], 'thorough': []},
    'kani_functions': ['v2::Header::{length,len,is_empty,address_family,address_bytes,tlv_bytes,tlvs,as_bytes}', 'v2::TypeLengthValues::{len,is_empty,as_bytes}',
                       'v2::Addresses::{address_family,len,is_empty}', 'v2::AddressFamily::byte_length', 'From<AddressFamily> for u16', '<v2::Header as TryFrom<&[u8]>>::try_from'],
    'assumptions': K_TRUST,
    'outside_claim': ['headers longer than 240 bytes'],
}

PROPS['C17'] = {
    'kani': {'quick': [H('c17::c17_counts_exact_240', B240 + ' x every completion length m in (n, min(240, 16+len)]; unwind 14')], 'thorough': []},
    'kani_functions': ['<v2::Header as TryFrom<&[u8]>>::try_from', 'impl PartialResult for v2::ParseError', 'impl PartialResult for Result<T,E>'],
    'assumptions': K_TRUST,
    'outside_claim': ['the "supplying the missing bytes gives success" clause for declared lengths whose completion exceeds 240 bytes (> 224); the counts themselves are covered for all 65536 declared lengths'],
}

PROPS['C11'] = {
    'kani': {
        'quick': [H('c11::c11_walk_16', 'every TLV section of <= 16 bytes (all contents, all lengths n), full walk against a reference cursor, one extra next() after the end; unwind 8'),
                  H('c11::c11_long_value_300', 'section of <= 300 bytes whose first 6 bytes are symbolic and the rest zero: values of 0..297 bytes actually yielded, every declared length 0..65535; first two items'),
                  H('c11::c11_header_section_is_payload_tail_240', B240 + ': tlvs() section = payload after the address block, first item read from there')],
        'thorough': [H('c11::c11_walk_24', 'every TLV section of <= 24 bytes, full walk; unwind 11')],
    },
    'kani_functions': ['<v2::TypeLengthValues as Iterator>::next', 'From<&[u8]> for TypeLengthValues', 'v2::Header::{tlvs,tlv_bytes,address_bytes_end}', 'TypeLengthValue::{len,is_empty}'],
    'assumptions': K_TRUST,
    'outside_claim': ['sections longer than 24 bytes with fully symbolic content', 'values longer than 297 bytes being yielded (65535-byte values)'],
}

PROPS['C19'] = {
    'kani': {'quick': [H('c19::c19_ipv4_new_roles', 'all values: 2 x 32-bit addresses, 2 x 16-bit ports; instantiations T = Ipv4Addr, [u8;4], u32'),
                       H('c19::c19_ipv6_new_roles', 'all values: 2 x 128-bit addresses, 2 ports; instantiations T = Ipv6Addr, [u8;16], [u16;8], u128'),
                       H('c19::c19_unix_new_roles', 'all 2 x 108-byte paths'),
                       H('c19::c19_socket_pair_conversions', 'all four family combinations of (SocketAddr, SocketAddr), all ip/port/flowinfo/scope values')], 'thorough': []},
    'kani_functions': ['ip::IPv4::new', 'ip::IPv6::new', 'v2::Unix::new', 'v1::Addresses::{new_tcp4,new_tcp6}', 'From<IPv4|IPv6|Unix> for v1/v2::Addresses', 'From<(SocketAddr,SocketAddr)> for v1::Addresses and v2::Addresses'],
    'assumptions': K_TRUST,
    'outside_claim': ['generic instantiations of IPv4::new / IPv6::new other than the listed ones'],
}

_ints = ['u8', 'u16', 'u32', 'u64', 'u128', 'usize', 'i8', 'i16', 'i32', 'i64', 'i128', 'isize']
PROPS['C20'] = {
    'kani': {
        'quick': [H('c20::c20_int_%s' % t, 'all values of %s; writer pre-filled with 3 symbolic bytes; write_to, to_bytes and the blanket &T impl' % t) for t in _ints] + [
            H('c20::c20_addresses_ipv4', 'all IPv4 address blocks, 3-byte symbolic prefix'),
            H('c20::c20_addresses_ipv6', 'all IPv6 address blocks, 3-byte symbolic prefix'),
            H('c20::c20_addresses_unix_and_unspecified', 'all Unix address blocks and the unspecified value, 3-byte symbolic prefix'),
            H('c20::c20_tlv_len0', 'TLV / (u8,&[u8]) / (Type,&[u8]) with a 0-byte value, symbolic type'),
            H('c20::c20_tlv_len1', 'same, 1-byte symbolic value'),
            H('c20::c20_tlv_len3', 'same, 3-byte symbolic value'),
            H('c20::c20_slice_section_type', '[u8] of 5 and 0 bytes, TypeLengthValues of 5 raw bytes, Type::SSLCipher'),
            H('c20::c20_oversize_refused_65536', 'slice / TLV / pair of literal length 65536 (zero content): refused, writer unchanged'),
            H('c20::c20_oversize_refused_70000', 'same, literal length 70000'),
        ],
        'thorough': [H('c20::c20_tlv_len300', 'TLV / pairs with a 300-byte symbolic value (length needs the high byte)'),
                     H('c20::c20_oversize_slice_refused_symbolic_len', 'slice of every length n in (65535, 70000] (zero content): refused, writer unchanged')],
    },
    'kani_timeout': {'quick': 600, 'thorough': 1800},
    'kani_functions': ['impl Write for v2::Writer (write)', 'Writer::{finish, from}', 'WriteToHeader::to_bytes', 'write_to for Addresses, TypeLengthValue, (T,&[u8]) with T=u8 and T=Type, TypeLengthValues, [u8], &T, Type, and the 12 integer impls'],
    'assumptions': K_TRUST,
    'outside_claim': ['TLV / slice values of 301..65535 bytes bytewise (length arithmetic for arbitrary sizes is decided by Engine M when built)',
                      'a writer already above its size limit (the property quantifies over writers below it)'],
}

PROPS['C07'] = {
    'kani': {
        'quick': [H('c07::' + n, 'family/TLV shape in the name; command, transport, all address bits, TLV type bytes and TLV value bytes symbolic; value lengths literal')
                  for n in ['c07_unspec_0tlv', 'c07_unspec_1tlv_3', 'c07_ipv4_0tlv', 'c07_ipv4_1tlv_1', 'c07_ipv4_2tlv_0_3', 'c07_ipv4_2tlv_3_1',
                            'c07_ipv6_0tlv', 'c07_ipv6_2tlv_1_3']] +
                 [H('c07::c07_unix_0tlv', 'unix family, no TLV; all 216 address bytes symbolic', FS300),
                  H('c07::c07_unix_1tlv_3', 'unix family, one 3-byte TLV', FS300),
                  H('c07::c07_registered_type_codes', 'the 12 named TLV types (symbolic choice) through u8::from and on the wire via write_tlv')],
        'thorough': [H('c07::' + n, 'family/TLV shape in the name; everything but the value lengths symbolic')
                     for n in ['c07_ipv4_2tlv_2_5', 'c07_ipv4_2tlv_8_8', 'c07_ipv4_1tlv_40', 'c07_ipv6_1tlv_5', 'c07_ipv6_2tlv_8_2', 'c07_unspec_2tlv_1_1']] +
                    [H('c07::c07_unix_2tlv_1_0', 'unix family, two TLVs of 1 and 0 bytes', FS300)],
    },
    'kani_functions': ['v2::Builder::{with_addresses, write_tlv, write_payload, write_internal, write_header, build}', 'Writer', 'write_to for Addresses and TypeLengthValue',
                       'BitOr impls for Version|Command and AddressFamily|Protocol', 'From<Type> for u8', '<v2::Header as TryFrom<&[u8]>>::try_from', 'TypeLengthValues::next'],
    'assumptions': K_TRUST,
    'outside_claim': ['TLV lists of more than 2 items; value lengths other than the instantiated literals {0,1,2,3,5,8,40}', 'encodings near the 65535-byte limit (see C09)'],
}

_c13_q = ['c13_unspec_0', 'c13_unspec_7', 'c13_ipv4_0', 'c13_ipv4_7_wf', 'c13_ipv6_7_wf']
_c13_t = ['c13_ipv4_7_raw', 'c13_ipv4_3_wf', 'c13_ipv4_4_wf', 'c13_ipv4_2_raw', 'c13_ipv6_0', 'c13_ipv6_4_raw', 'c13_unspec_12']
PROPS['C13'] = {
    'kani': {
        'quick': [H('c13::' + n, 'literal control bytes and total length as in the name (family block + TLV section bytes); all address and TLV contents symbolic; rebuilt four ways (raw views, TypeLengthValues encoder, decoded address value, item by item when well-formed)') for n in _c13_q] +
                 [H('c13::c13_unix_0', 'unix family, no TLV section, all 216 address bytes symbolic', FS300)],
        'thorough': [H('c13::' + n, 'literal control bytes / lengths as in the name; contents symbolic') for n in _c13_t] +
                    [H('c13::c13_unix_7_wf', 'unix family + one 4-byte TLV', FS300), H('c13::c13_unix_3_raw', 'unix family + 3 raw TLV bytes', FS300)],
    },
    'kani_functions': ['<v2::Header as TryFrom<&[u8]>>::try_from', 'Header::{address_bytes, tlv_bytes, tlvs, as_bytes}', 'Builder::{new, with_addresses, write_payload, write_payloads, write_tlv, build}',
                       'write_to for [u8], TypeLengthValues, TypeLengthValue, Addresses', 'TypeLengthValues::next'],
    'assumptions': K_TRUST + ['header views are read element-wise into literal-size local arrays before being handed to the builder (CBMC cannot constant-propagate the pointer of the niche-encoded Cow<[u8]>); the decoded TLV is compared element-wise and an equal item over the local copy is re-encoded'],
    'outside_claim': ['control-byte pairs / payload sizes other than the instantiated literals; TLV sections longer than 12 bytes'],
}

PROPS['C09'] = {
    'kani': {
        'quick': [H('c09::' + n, 'fixed sequence of builder call kinds as in the name after Builder::new (h*) or with_addresses(IPv4) (hv4*); every value symbolic (control bytes, Option<u16> length overrides, integers, 2-byte slices, TLV type/3-byte value)') for n in _c09['quick']],
        'thorough': [H('c09::' + n, 'fixed three-call sequence of kinds as in the name; every value symbolic') for n in _c09['thorough']],
    },
    'kani_timeout': {'quick': 600, 'thorough': 1200},
    'kani_functions': ['v2::Builder::{new, with_addresses, set_length, reserve_capacity, write_payload, write_payloads, write_tlv, write_internal, write_header, build}', 'Writer::{from, finish, write}', 'WriteToHeader impls for u8, u16, [u8], TypeLengthValue, Addresses'],
    'assumptions': K_TRUST + ['ghost history interpreter in /verif/kani/src/c09.rs (explicit length in force, expected bytes in call order) states the property correctly'],
    'outside_claim': ['histories longer than 4 calls; payload pieces longer than 3 bytes; totals near 65535/65536 bytes (CBMC runs out of memory; decided by Engine M on the length arithmetic when built)'],
}
PROPS['C10'] = dict(PROPS['C09'])

PROPS['C04'] = {
    'kani': {'quick': [H('c04::c04_v2_trailer_independent_240', B240 + ' x every re-parse length m in [header length, 240] (same bytes, trailer of every length incl. none)'),
                       H('c04::c04_v2_other_trailer_64', 'two 64-byte buffers agreeing exactly on the accepted header bytes and arbitrary elsewhere, every n, m <= 64; unwind 66')], 'thorough': []},
    'kani_functions': ['<v2::Header as TryFrom<&[u8]>>::try_from', 'v2::parse_addresses'],
    'assumptions': K_TRUST,
    'outside_claim': ['v1 and auto-detect halves: Engine M (when built)', 'header + trailer longer than 240 bytes'],
}

PROPS['C05'] = {
    'kani': {'quick': [H('c05::c05_v2_prefixes_incomplete_240', B240 + ' x every cut m < header length')], 'thorough': []},
    'kani_functions': ['<v2::Header as TryFrom<&[u8]>>::try_from', 'impl PartialResult for v2::ParseError / Result<T,E> (is_incomplete, is_complete)'],
    'assumptions': K_TRUST,
    'outside_claim': ['v1 and auto-detect halves: Engine M (when built)', 'headers longer than 240 bytes'],
}

PROPS['C12'] = {
    'kani': {'quick': [H('c12::c12_v2_single_corruption_240', 'every complete well-formed header within ' + B240 + ', one element replaced by every invalid value: signature byte i (every i, every other value), version nibble != 2, command nibble >= 2, family nibble >= 4, transport nibble >= 3, length < family size'),
                       H('c12::c12_v2_error_blame_exact_240', B240 + ': variant and payload of every v2 verdict equal the reference decoder\'s (first offending element in wire order)')], 'thorough': []},
    'kani_functions': ['<v2::Header as TryFrom<&[u8]>>::try_from', 'impl PartialResult for v2::ParseError'],
    'assumptions': K_TRUST,
    'outside_claim': ['v1 half and the auto-detecting entry point: Engine M (when built)'],
}

PROPS['C03'] = {
    'kani': {'quick': [H('c03::c03_v2_accessors_no_panic_240', B240 + ': try_from and every accessor / BitOr / conversion on the result; Kani default checks = the property'),
                       H('c03::c03_tlv_iteration_terminates_24', 'every TLV section <= 24 bytes: iteration ends within n/3+1 items (loop bounded only by the iterator; unwinding assertion proves termination)')],
             'thorough': [H('c03::c03_tlv_iteration_terminates_48', 'every TLV section <= 48 bytes; unwind 19')]},
    'kani_functions': ['<v2::Header as TryFrom<&[u8]>>::try_from', 'all v2::Header accessors', 'TypeLengthValues::{next,len,is_empty,as_bytes}', 'TypeLengthValue::{len,is_empty}', 'BitOr impls'],
    'assumptions': K_TRUST,
    'outside_claim': ['v1 entry points, auto-detection, Display: Engine M (when built)', 'core::fmt internals, thiserror-generated Display'],
}

PROPS['C16'] = {
    'kani': {'quick': [H('c16::c16_v2_header_owned_48', 'every accepted v2 header within a 48-byte buffer: to_owned equality both ways, views, then the buffer is overwritten with fresh symbolic bytes; unwind 50'),
                       H('c16::c16_tlv_owned_16', 'first TLV of every section <= 16 bytes: to_owned equality, buffer clobbered'),
                       H('c16::c16_v1_header_owned_16', 'v1::Header::new(text, tcp4 addresses) for every ASCII text <= 16 bytes: to_owned equality, buffer clobbered')], 'thorough': []},
    'kani_functions': ['v2::Header::to_owned', 'v2::TypeLengthValue::to_owned', 'v1::Header::{new,to_owned,protocol}', 'derived PartialEq impls'],
    'assumptions': K_TRUST,
    'outside_claim': ['agreement of the four v1 entry points: Engine M (when built)', 'owned copies of headers longer than 48 bytes'],
}

# ---------------------------------------------------------------- Engine M (mirsym) halves
for _p in ('C03', 'C04', 'C05', 'C12', 'C16'):
    PROPS[_p]['mirsym'] = True
    PROPS[_p]['outside_claim'] = [o for o in PROPS[_p]['outside_claim'] if 'Engine M (when built)' not in o]
PROPS['C03']['outside_claim'] += ['HeaderResult::parse itself (see C06)', 'v1 inputs longer than LMAX']
for _p in ('C01', 'C15', 'C18'):
    PROPS[_p] = {'mirsym': True, 'assumptions': [], 'outside_claim': ['v1 inputs longer than LMAX bytes']}
PROPS['C01']['outside_claim'] += ['conformance of std\'s Ipv4Addr/Ipv6Addr::from_str to dotted-quad / RFC 4291 text (std grammar is an uninterpreted function with contract facts; its real truth is consulted only when witnesses are replayed)']
PROPS['C16']['outside_claim'] += ['v1 inputs longer than LMAX bytes']

PROPS['C06'] = {
    'kani': {'quick': ['c02::c02_accept_iff_wellformed_240', 'c12::c12_v2_error_blame_exact_240'], 'thorough': []},
    'kani_functions': ['<v2::Header as TryFrom<&[u8]>>::try_from (v2 accepts only inputs starting with the signature; any other non-empty input is the terminal Prefix error)'],
    'mirsym': True,
    'assumptions': K_TRUST,
    'outside_claim': ['the two dedicated parsers themselves (C01, C02): the glue is checked for *every* pair of results they can return', 'v1 inputs longer than LMAX for the "never both" clause'],
}
PROPS['C08'] = {'mirsym': True, 'assumptions': [], 'outside_claim': [
    'std\'s Display for Ipv4Addr / Ipv6Addr / u16 (every `::` shape): taken as contract axioms - output over the address alphabet, 7..15 / 2..39 bytes, from_str(display(a)) == Ok(a); canonical decimal for u16',
    'v1 inputs longer than LMAX']}
for _p in ('C09', 'C10', 'C20'):
    PROPS[_p] = dict(PROPS[_p])
    PROPS[_p]['mirsym'] = True
    PROPS[_p]['outside_claim'] = [o for o in PROPS[_p]['outside_claim'] if 'Engine M' not in o] + [
        'Engine M: call sequences longer than 2 (quick) / 3 (thorough); Vec capacity is not modelled (reserve_capacity is a no-op in the model: its lack of effect rests on Engine K)']

FS400 = ['-Z', 'unstable-options', '--cbmc-args', '--max-field-sensitivity-array-size', '400']
PROPS['C02']['kani']['thorough'].append(H('c02::c02_long_declared_lengths_65551', '65 551-byte buffer: 52 symbolic head bytes + constant-zero tail, families 0-2, every input length n <= 65551 (declared lengths up to 65535 accepted / Partial counts exact)'))
PROPS['C17']['kani']['thorough'].append('c02::c02_long_declared_lengths_65551')
PROPS['C13']['kani']['thorough'].append(H('c13::c13_ipv4_303_wf', 'IPv4 header with one 300-byte TLV (length needs the high byte), contents symbolic', FS400))
PROPS['C01']['kani'] = {'quick': [H('c01::c01_ipv4_text_is_dotted_quad_16', 'std Ipv4Addr::from_str vs a dotted-quad recogniser on every ASCII text of at most 16 bytes'),
                                  H('c01::c01_model_parse_u16_matches_std_8', 'Engine M\'s parse::<u16> model (Rust transcription) vs the real std function on every ASCII text of at most 8 bytes')],
                        'thorough': []}
PROPS['C01']['kani_functions'] = ['std::net::Ipv4Addr::from_str (address-text clause)', 'core::num::<impl FromStr for u16>::from_str (model conformance)']
PROPS['C01']['kani_stubs'] = ['Engine K: no std function stubbed']

PROPS['C07']['kani']['quick'].append(H('c07::c07_unix_sparse_content', 'unix family: constant fill with 3 symbolic bytes per path (first, middle, last), command/transport symbolic; bytes vs reference and parse-back', FS300))

PROPS['C07']['mirsym'] = True
PROPS['C07']['outside_claim'] = list(PROPS['C07']['outside_claim']) + ['Engine M half: wire bytes of the constructors and of one (quick) / two (thorough) writes only; no parse-back in M']


# ---------------------------------------------------------------- Engine M v2 half (mirsym/props_v2.py): unbounded input length
_V2M = {
    'C02': 'Engine M half: acceptance and decoding against the reference for every input length (0 <= L <= isize::MAX), i.e. also headers longer than 240 bytes and declared lengths up to 65535 actually present',
    'C14': 'Engine M half: every accessor on every accepted header of any length',
    'C17': 'Engine M half: counts and the completion clause for every declared length and every input length',
    'C11': 'Engine M half: one next() from an arbitrary reachable cursor state of a section of any length (induction over the walk: values and sections of every size)',
    'C13': 'Engine M half: parse -> rebuild through the builder MIR for headers of any length, TLV section rebuilt raw, through TypeLengthValues, from the decoded address value, and item by item for well-formed sections of at most 2 (quick) / 3 (thorough) items of any value length',
}
for _p, _txt in _V2M.items():
    PROPS[_p] = dict(PROPS[_p])
    PROPS[_p]['mirsym'] = True
    PROPS[_p]['engine_m_v2'] = _txt

# the 240-byte / 24-byte limits below are limits of the Engine K harnesses only; what Engine M adds is listed per property
PROPS['C02']['outside_claim'] = ['Engine K: inputs longer than 240 bytes (Engine M: no length bound)']
PROPS['C14']['outside_claim'] = ['Engine K: headers longer than 240 bytes (Engine M: no length bound)']
PROPS['C17']['outside_claim'] = ['Engine K: completion clause only for declared lengths <= 224 (Engine M: every declared length)']
PROPS['C11']['outside_claim'] = ['Engine K: full walks only of sections <= 24 bytes (Engine M: single inductive step, any size; the multi-step statement follows by induction on the cursor, which is argued in DESIGN.md, not machine-checked)']
PROPS['C13']['outside_claim'] = ['Engine K: control-byte pairs / payload sizes other than the instantiated literals', 'Engine M: item-by-item rebuild only for well-formed sections of at most 2 (quick) / 3 (thorough) items (any value lengths); raw / section / address-value rebuilds: any size']
for _p in ('C04', 'C05', 'C12', 'C03', 'C16'):
    PROPS[_p]['outside_claim'] = [o.replace('header + trailer longer than 240 bytes', 'Engine K: header + trailer longer than 240 bytes (Engine M v2 half: no length bound)').replace('headers longer than 240 bytes', 'Engine K: headers longer than 240 bytes (Engine M v2 half: no length bound)') for o in PROPS[_p].get('outside_claim', [])]
