"""Which obligations decide which property, per tier, with their stated bounds."""

HARNESS_BOUNDS = {
    'c02::c02_accept_iff_wellformed_240':
        'all 2^(8*240) buffers x every input length n <= 240 (every control-byte pair, every declared length 0..65535 vs <= 240 present bytes); unwind 14',
}

PROPS = {
    'C02': {
        'kani': {
            'quick': ['c02::c02_accept_iff_wellformed_240'],
            'thorough': [],
        },
        'kani_functions': ['<ppp::v2::Header as TryFrom<&[u8]>>::try_from', 'ppp::v2::parse_addresses',
                           'ppp::v2::AddressFamily::byte_length'],
        'assumptions': ['CBMC/Kani model of the compiled Rust code and of std (Vec, slices, memcmp) is faithful',
                        'reference decoder /verif/kani/src/refmodel.rs transcribes the PROXY v2 specification correctly'],
        'outside_claim': ['inputs longer than 240 bytes except as covered by the long-buffer harness (thorough)'],
    },
}
