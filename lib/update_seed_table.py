#!/usr/bin/env python3
"""rewrites the table between the SEED-TABLE markers of DESIGN.md from seeded/*/check_results.json"""
import os, subprocess
HERE = os.path.dirname(os.path.dirname(os.path.abspath(__file__)))
t = subprocess.run(['python3', os.path.join(HERE, 'lib', 'seed_table.py')], capture_output=True, text=True).stdout
p = os.path.join(HERE, 'DESIGN.md')
s = open(p).read()
a, b = s.index('<!-- SEED-TABLE-BEGIN -->'), s.index('<!-- SEED-TABLE-END -->')
s = s[:a] + '<!-- SEED-TABLE-BEGIN -->\n' + t + s[b:]
open(p, 'w').write(s)
print('table updated: %d rows' % (t.count('\n') - 2))
