#!/usr/bin/env python3
"""seedtest.py <seed-id> <PROP> [<PROP>...]  — apply /verif/seeded/<seed-id>/patch.diff to /repo, run the quick
checks of the given properties, undo the patch, print a one-line verdict per property."""
import subprocess, sys, os, json, time
VERIF = os.path.dirname(os.path.dirname(os.path.abspath(__file__)))
REPO = os.environ.get('PPP_REPO', '/repo')
sid = sys.argv[1]
props = sys.argv[2:]
patch = os.path.join(VERIF, 'seeded', sid, 'patch.diff')
assert subprocess.run(['git', '-C', REPO, 'status', '--porcelain', '--', 'src'], capture_output=True, text=True).stdout.strip() == '', '/repo not clean'
subprocess.run(['git', '-C', REPO, 'apply', patch], check=True)
res = {}
try:
    for p in props:
        t0 = time.time()
        env = dict(os.environ, VERIF_EVIDENCE_DIR=os.path.join(VERIF, '.build', 'seed-evidence'))
        tier = os.environ.get('SEED_TIER', 'quick')
        cmd = [os.path.join(VERIF, 'check'), p, '--tier', tier]
        if os.environ.get('SEED_ONLY'):
            cmd += ['--only', os.environ['SEED_ONLY']]
        r = subprocess.run(cmd, cwd=VERIF, capture_output=True, text=True, env=env)
        lines = [l for l in r.stdout.split('\n') if l.startswith(('VIOLATION', 'violation:', 'INCONCLUSIVE', 'OK '))]
        res[p if tier == 'quick' else p + ':' + tier] = {'exit': r.returncode, 'wall_s': round(time.time() - t0), 'lines': lines[:6]}
        print(sid, p, 'exit=%d' % r.returncode, '%ds' % (time.time() - t0), '|', ' || '.join(lines[:3])[:400], flush=True)
finally:
    subprocess.run(['git', '-C', REPO, 'checkout', '--', '.'], check=True)
out = os.path.join(os.environ.get('SEED_RESULTS_ROOT', VERIF), 'seeded', sid, 'check_results.json')
old = json.load(open(out)) if os.path.exists(out) else {}
old.update(res)
json.dump(old, open(out, 'w'), indent=1)
