#!/bin/sh
# Offline setup after a fresh restore: pre-build what the checks reuse. Everything lives under /verif/.build.
set -e
cd "$(dirname "$0")"
export CARGO_NET_OFFLINE=true
mkdir -p .build evidence replays
# Engine K: warm one target directory (compiles thiserror's proc-macro stack and the Kani std once)
( cd kani && cargo kani --target-dir ../.build/kani-slot0 --only-codegen >/dev/null 2>&1 || true )
for i in 1 2 3 4 5; do
  [ -d .build/kani-slot$i ] || cp -r .build/kani-slot0 .build/kani-slot$i 2>/dev/null || true
done
echo setup done
