#!/bin/sh
# Offline setup after a fresh restore: pre-build what the checks reuse. Everything lives under /verif/.build.
cd "$(dirname "$0")"
export CARGO_NET_OFFLINE=true
mkdir -p .build evidence replays .cache
# Engine K: warm one target directory (Kani std + thiserror's proc-macro stack), copy it to the other slots
( cd kani && cargo kani --target-dir ../.build/kani-slot0 --only-codegen >/dev/null 2>&1 )
for i in 1 2 3 4 5; do
  [ -d .build/kani-slot$i ] || cp -r .build/kani-slot0 .build/kani-slot$i 2>/dev/null
done
# Engine M: native replay binary (dev + release) and the nightly MIR target directory
( cd replay && CARGO_TARGET_DIR=../.build/replay cargo build --offline >/dev/null 2>&1; CARGO_TARGET_DIR=../.build/replay cargo build --offline --release >/dev/null 2>&1 )
cargo +nightly rustc --offline --lib --manifest-path /repo/Cargo.toml --target-dir .build/mir -- -Zunpretty=mir >/dev/null 2>&1
# Engine M: fill the per-MIR-hash caches (feasible-path scripts + native validation) for the unchanged tree;
# an edited tree has another MIR hash and recomputes them inside the check
for p in C18 C05 C15; do
  VERIF_M_WARM=1 /usr/local/bin/python3-vt mirsym/mworker.py $p quick 0 .build/warm-$p.json >/dev/null 2>&1
  rm -f .build/warm-$p.json
done
echo setup done
exit 0
