//! Native replay / differential-validation binary for Engine M.
//! stdin: one request per line  `<entry> <hex bytes> [extra]`
//! stdout: one line per request with a canonical rendering of what the real crate did.
//! entries: v1_str v1_bytes v1_fromstr_addresses v1_fromstr_header v2 auto v1_views v1_display
use ppp::v1;
use ppp::v2;
use ppp::{HeaderResult, PartialResult};
use std::io::{BufRead, Write};
use std::panic::{catch_unwind, AssertUnwindSafe};

fn unhex(s: &str) -> Vec<u8> {
    (0..s.len() / 2).map(|i| u8::from_str_radix(&s[2 * i..2 * i + 2], 16).unwrap()).collect()
}
fn hex(b: &[u8]) -> String {
    b.iter().map(|x| format!("{:02x}", x)).collect()
}

fn addrs1(a: &v1::Addresses) -> String {
    match a {
        v1::Addresses::Unknown => "Unknown".to_string(),
        v1::Addresses::Tcp4(x) => format!(
            "Tcp4 {} {} {} {}",
            u32::from(x.source_address),
            u32::from(x.destination_address),
            x.source_port,
            x.destination_port
        ),
        v1::Addresses::Tcp6(x) => format!(
            "Tcp6 {} {} {} {}",
            u128::from(x.source_address),
            u128::from(x.destination_address),
            x.source_port,
            x.destination_port
        ),
    }
}

fn perr(e: &v1::ParseError) -> String {
    use v1::ParseError::*;
    let kind = |k: &std::num::IntErrorKind| format!("{:?}", k);
    match e {
        InvalidSourcePort(p) => format!("InvalidSourcePort({})", p.as_ref().map(|x| kind(x.kind())).unwrap_or("None".into())),
        InvalidDestinationPort(p) => {
            format!("InvalidDestinationPort({})", p.as_ref().map(|x| kind(x.kind())).unwrap_or("None".into()))
        }
        InvalidSourceAddress(_) => "InvalidSourceAddress".into(),
        InvalidDestinationAddress(_) => "InvalidDestinationAddress".into(),
        other => format!("{:?}", other),
    }
}

fn v1_result(r: &Result<v1::Header<'_>, v1::ParseError>) -> String {
    match r {
        Ok(h) => format!("Ok len={} addr={} inc={}", h.header.len(), addrs1(&h.addresses), r.is_incomplete()),
        Err(e) => format!("Err {} inc={}", perr(e), r.is_incomplete()),
    }
}
fn v1b_result(r: &Result<v1::Header<'_>, v1::BinaryParseError>) -> String {
    match r {
        Ok(h) => format!("Ok len={} addr={} inc={}", h.header.len(), addrs1(&h.addresses), r.is_incomplete()),
        Err(v1::BinaryParseError::Parse(e)) => format!("Err {} inc={}", perr(e), r.is_incomplete()),
        Err(v1::BinaryParseError::InvalidUtf8(_)) => format!("Err InvalidUtf8 inc={}", r.is_incomplete()),
    }
}
fn v2_result(r: &Result<v2::Header<'_>, v2::ParseError>) -> String {
    match r {
        Ok(h) => format!("Ok len={} inc={}", h.header.len(), r.is_incomplete()),
        Err(e) => format!("Err {:?} inc={}", e, r.is_incomplete()),
    }
}

fn handle(entry: &str, bytes: &[u8]) -> String {
    match entry {
        "v1_str" | "v1_fromstr_addresses" | "v1_fromstr_header" | "v1_views" => {
            let s = match std::str::from_utf8(bytes) {
                Ok(s) => s,
                Err(_) => return "NotUtf8".into(),
            };
            match entry {
                "v1_str" => v1_result(&v1::Header::try_from(s)),
                "v1_fromstr_addresses" => match s.parse::<v1::Addresses>() {
                    Ok(a) => format!("Ok addr={}", addrs1(&a)),
                    Err(e) => format!("Err {}", perr(&e)),
                },
                "v1_fromstr_header" => match s.parse::<v1::Header<'static>>() {
                    Ok(h) => format!("Ok len={} addr={} inc=false", h.header.len(), addrs1(&h.addresses)),
                    Err(e) => format!("Err {}", perr(&e)),
                },
                _ => match v1::Header::try_from(s) {
                    Ok(h) => format!(
                        "Ok protocol={} addresses_str={} display={} owned_eq={}",
                        hex(h.protocol().as_bytes()),
                        hex(h.addresses_str().as_bytes()),
                        hex(h.to_string().as_bytes()),
                        h.to_owned() == h
                    ),
                    Err(e) => format!("Err {}", perr(&e)),
                },
            }
        }
        "v1_bytes" => v1b_result(&v1::Header::try_from(bytes)),
        "v2" => v2_result(&v2::Header::try_from(bytes)),
        "auto" => {
            let r = HeaderResult::parse(bytes);
            match &r {
                HeaderResult::V1(x) => format!("V1 {} complete={}", v1b_result(x), r.is_complete()),
                HeaderResult::V2(x) => format!("V2 {} complete={}", v2_result(x), r.is_complete()),
            }
        }
        "ip4" => match std::str::from_utf8(bytes).ok().and_then(|s| s.parse::<std::net::Ipv4Addr>().ok()) {
            Some(a) => format!("Ok {}", u32::from(a)),
            None => "Err".into(),
        },
        "ip6" => match std::str::from_utf8(bytes).ok().and_then(|s| s.parse::<std::net::Ipv6Addr>().ok()) {
            Some(a) => format!("Ok {}", u128::from(a)),
            None => "Err".into(),
        },
        _ => "UnknownEntry".into(),
    }
}

fn main() {
    std::panic::set_hook(Box::new(|_| {}));
    let stdin = std::io::stdin();
    let out = std::io::stdout();
    let mut out = out.lock();
    for line in stdin.lock().lines() {
        let line = line.unwrap();
        let mut it = line.split_whitespace();
        let entry = it.next().unwrap_or("");
        let bytes = unhex(it.next().unwrap_or(""));
        let r = catch_unwind(AssertUnwindSafe(|| handle(entry, &bytes)));
        let text = match r {
            Ok(t) => t,
            Err(p) => {
                let msg = p.downcast_ref::<String>().cloned().or_else(|| p.downcast_ref::<&str>().map(|s| s.to_string())).unwrap_or_default();
                format!("Panic {}", msg.chars().map(|c| if c.is_control() { ' ' } else { c }).collect::<String>())
            }
        };
        writeln!(out, "{}", text).unwrap();
    }
}
