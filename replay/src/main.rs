//! Native replay / differential-validation binary for Engine M.
//! stdin: one request per line  `<entry> <hex bytes> [extra]`
//! stdout: one line per request with a canonical rendering of what the real crate did.
//! entries: v1_str v1_bytes v1_fromstr_addresses v1_fromstr_header v2 auto v1_views v1_display
use ppp::v1;
use ppp::v2;
use ppp::{HeaderResult, PartialResult};
use std::io::{BufRead, Write};
use std::panic::{catch_unwind, AssertUnwindSafe};

fn unhex(s: &str) -> Vec<u8> {
    (0..s.len() / 2).map(|i| u8::from_str_radix(&s[2 * i..2 * i + 2], 16).unwrap()).collect()
}
fn hex(b: &[u8]) -> String {
    b.iter().map(|x| format!("{:02x}", x)).collect()
}

fn addrs1(a: &v1::Addresses) -> String {
    match a {
        v1::Addresses::Unknown => "Unknown".to_string(),
        v1::Addresses::Tcp4(x) => format!(
            "Tcp4 {} {} {} {}",
            u32::from(x.source_address),
            u32::from(x.destination_address),
            x.source_port,
            x.destination_port
        ),
        v1::Addresses::Tcp6(x) => format!(
            "Tcp6 {} {} {} {}",
            u128::from(x.source_address),
            u128::from(x.destination_address),
            x.source_port,
            x.destination_port
        ),
    }
}

fn perr(e: &v1::ParseError) -> String {
    use v1::ParseError::*;
    let kind = |k: &std::num::IntErrorKind| format!("{:?}", k);
    match e {
        InvalidSourcePort(p) => format!("InvalidSourcePort({})", p.as_ref().map(|x| kind(x.kind())).unwrap_or("None".into())),
        InvalidDestinationPort(p) => {
            format!("InvalidDestinationPort({})", p.as_ref().map(|x| kind(x.kind())).unwrap_or("None".into()))
        }
        InvalidSourceAddress(_) => "InvalidSourceAddress".into(),
        InvalidDestinationAddress(_) => "InvalidDestinationAddress".into(),
        other => format!("{:?}", other),
    }
}

fn v1_result(r: &Result<v1::Header<'_>, v1::ParseError>) -> String {
    match r {
        Ok(h) => format!("Ok len={} addr={} inc={}", h.header.len(), addrs1(&h.addresses), r.is_incomplete()),
        Err(e) => format!("Err {} inc={}", perr(e), r.is_incomplete()),
    }
}
fn v1b_result(r: &Result<v1::Header<'_>, v1::BinaryParseError>) -> String {
    match r {
        Ok(h) => format!("Ok len={} addr={} inc={}", h.header.len(), addrs1(&h.addresses), r.is_incomplete()),
        Err(v1::BinaryParseError::Parse(e)) => format!("Err {} inc={}", perr(e), r.is_incomplete()),
        Err(v1::BinaryParseError::InvalidUtf8(_)) => format!("Err InvalidUtf8 inc={}", r.is_incomplete()),
    }
}
fn v2_result(r: &Result<v2::Header<'_>, v2::ParseError>) -> String {
    match r {
        Ok(h) => format!("Ok len={} inc={}", h.header.len(), r.is_incomplete()),
        Err(e) => format!("Err {:?} inc={}", e, r.is_incomplete()),
    }
}


fn off(base: &[u8], s: &[u8]) -> i64 {
    (s.as_ptr() as i64) - (base.as_ptr() as i64)
}

/// Walk of a TLV section: `O<kind>:<offset of the value in the section>:<len>` / `L<n>` (Leftovers) /
/// `I<type>:<len>` (InvalidTLV) / `E<debug>` (any other error), `,`-separated; then `;end` if `None` was returned twice in a row
/// within n/3 + 4 calls, `;noend` otherwise.
fn tlv_walk(section: &[u8], mut it: v2::TypeLengthValues<'_>) -> String {
    let mut out: Vec<String> = Vec::new();
    let budget = section.len() / 3 + 4;
    let mut ended = false;
    for _ in 0..budget {
        match it.next() {
            None => {
                ended = it.next().is_none();
                break;
            }
            Some(Ok(t)) => out.push(format!("O{}:{}:{}", t.kind, off(section, t.value.as_ref()), t.value.len())),
            Some(Err(v2::ParseError::Leftovers(n))) => out.push(format!("L{}", n)),
            Some(Err(v2::ParseError::InvalidTLV(t, l))) => out.push(format!("I{}:{}", t, l)),
            Some(Err(e)) => out.push(format!("E{:?}", e)),
        }
    }
    format!("{};{}", out.join(","), if ended { "end" } else { "noend" })
}

fn v2_addr_hex(a: &v2::Addresses) -> String {
    let mut b: Vec<u8> = Vec::new();
    match a {
        v2::Addresses::Unspecified => {}
        v2::Addresses::IPv4(x) => {
            b.extend_from_slice(&x.source_address.octets());
            b.extend_from_slice(&x.destination_address.octets());
            b.extend_from_slice(&x.source_port.to_be_bytes());
            b.extend_from_slice(&x.destination_port.to_be_bytes());
        }
        v2::Addresses::IPv6(x) => {
            b.extend_from_slice(&x.source_address.octets());
            b.extend_from_slice(&x.destination_address.octets());
            b.extend_from_slice(&x.source_port.to_be_bytes());
            b.extend_from_slice(&x.destination_port.to_be_bytes());
        }
        v2::Addresses::Unix(x) => {
            b.extend_from_slice(&x.source);
            b.extend_from_slice(&x.destination);
        }
    }
    hex(&b)
}

/// Full canonical rendering of what the v2 parser and every view of the result do on one input.
fn v2_full(input: &[u8]) -> String {
    let r = v2::Header::try_from(input);
    let flags = format!("inc={} comp={}", r.is_incomplete(), r.is_complete());
    match &r {
        Err(e) => {
            let d = match e {
                v2::ParseError::Incomplete(n) => format!("Incomplete({})", n),
                v2::ParseError::Prefix => "Prefix".to_string(),
                v2::ParseError::Version(v) => format!("Version({})", v),
                v2::ParseError::Command(v) => format!("Command({})", v),
                v2::ParseError::AddressFamily(v) => format!("AddressFamily({})", v),
                v2::ParseError::Protocol(v) => format!("Protocol({})", v),
                v2::ParseError::Partial(a, b) => format!("Partial({},{})", a, b),
                v2::ParseError::InvalidAddresses(a, b) => format!("InvalidAddresses({},{})", a, b),
                other => format!("{:?}", other),
            };
            format!("Err {} {}", d, flags)
        }
        Ok(h) => {
            let cmd = match h.command { v2::Command::Local => 0, v2::Command::Proxy => 1 };
            let tr = match h.protocol { v2::Protocol::Unspecified => 0, v2::Protocol::Stream => 1, v2::Protocol::Datagram => 2 };
            let famn = |f: v2::AddressFamily| match f { v2::AddressFamily::Unspecified => 0, v2::AddressFamily::IPv4 => 1, v2::AddressFamily::IPv6 => 2, v2::AddressFamily::Unix => 3 };
            let ver = match h.version { v2::Version::Two => 2 };
            let hb: &[u8] = h.header.as_ref();
            let ab = h.address_bytes();
            let tb = h.tlv_bytes();
            let tl = h.tlvs();
            let o = h.to_owned();
            let owned_ok = o == *h && *h == o && o.as_bytes() == h.as_bytes() && o.address_bytes() == h.address_bytes() && o.tlv_bytes() == h.tlv_bytes()
                && o.length() == h.length() && o.len() == h.len() && o.address_family() == h.address_family();
            format!(
                "Ok hdr={}:{} ver={} cmd={} tr={} fam={} addr={} {} ab={}:{} tb={}:{} length={} len={} empty={} asb={}:{} afam={} alen={} aempty={} bl={} fu16={} tlvs={}:{} tlvslen={} tlvsempty={} vc={} afp={} owned={} walk={}",
                off(input, hb), hb.len(), ver, cmd, tr, famn(h.address_family()), v2_addr_hex(&h.addresses), flags,
                off(input, ab), ab.len(), off(input, tb), tb.len(), h.length(), h.len(), h.is_empty(), off(input, h.as_bytes()), h.as_bytes().len(),
                famn(h.addresses.address_family()), h.addresses.len(), h.addresses.is_empty(),
                h.address_family().byte_length().map(|x| x as i64).unwrap_or(-1), u16::from(h.address_family()),
                off(input, tl.as_bytes()), tl.as_bytes().len(), tl.len(), tl.is_empty(),
                h.version | h.command, h.protocol | h.address_family(), owned_ok, tlv_walk(tb, h.tlvs())
            )
        }
    }
}

/// Re-encodes an accepted header four ways (C13) and says which reproduce it byte for byte.
fn v2_rebuild(input: &[u8]) -> String {
    use ppp::v2::Builder;
    let h = match v2::Header::try_from(input) {
        Ok(h) => h,
        Err(e) => return format!("Err {:?}", e),
    };
    let want = h.as_bytes().to_vec();
    let vc = input[12];
    let afp = input[13];
    let yes = |r: std::io::Result<Vec<u8>>| match r { Ok(v) => if v == want { "1" } else { "0" }, Err(_) => "E" };
    let a = yes(Builder::new(vc, afp).write_payload(h.address_bytes()).and_then(|b| b.write_payload(h.tlv_bytes())).and_then(|b| b.build()));
    let b = yes(Builder::new(vc, afp).write_payload(h.address_bytes()).and_then(|b| b.write_payload(h.tlvs())).and_then(|b| b.build()));
    let c = if h.address_family() != v2::AddressFamily::Unspecified {
        yes(Builder::with_addresses(h.version | h.command, h.protocol, h.addresses).write_payload(h.tlv_bytes()).and_then(|b| b.build()))
    } else { "-" };
    let items: Vec<_> = h.tlvs().collect();
    let d = if items.iter().all(|x| x.is_ok()) && items.len() <= 100000 {
        let tl: Vec<v2::TypeLengthValue<'_>> = items.into_iter().map(|x| x.unwrap()).collect();
        yes(Builder::new(vc, afp).write_payload(h.address_bytes()).and_then(|b| b.write_payloads(tl)).and_then(|b| b.build()))
    } else { "-" };
    format!("rebuild a={} b={} c={} d={}", a, b, c, d)
}

fn handle(entry: &str, bytes: &[u8]) -> String {
    match entry {
        "v1_str" | "v1_fromstr_addresses" | "v1_fromstr_header" | "v1_views" => {
            let s = match std::str::from_utf8(bytes) {
                Ok(s) => s,
                Err(_) => return "NotUtf8".into(),
            };
            match entry {
                "v1_str" => v1_result(&v1::Header::try_from(s)),
                "v1_fromstr_addresses" => match s.parse::<v1::Addresses>() {
                    Ok(a) => format!("Ok addr={}", addrs1(&a)),
                    Err(e) => format!("Err {}", perr(&e)),
                },
                "v1_fromstr_header" => match s.parse::<v1::Header<'static>>() {
                    Ok(h) => format!("Ok len={} addr={} inc=false", h.header.len(), addrs1(&h.addresses)),
                    Err(e) => format!("Err {}", perr(&e)),
                },
                _ => match v1::Header::try_from(s) {
                    Ok(h) => format!(
                        "Ok protocol={} addresses_str={} display={} owned_eq={}",
                        hex(h.protocol().as_bytes()),
                        hex(h.addresses_str().as_bytes()),
                        hex(h.to_string().as_bytes()),
                        h.to_owned() == h
                    ),
                    Err(e) => format!("Err {}", perr(&e)),
                },
            }
        }
        "v1_bytes" => v1b_result(&v1::Header::try_from(bytes)),
        "v2" => v2_result(&v2::Header::try_from(bytes)),
        "v2x" => v2_full(bytes),
        "v2rb" => v2_rebuild(bytes),
        "tlvx" => {
            let t = v2::TypeLengthValues::from(bytes);
            format!("tlvs={}:{} tlvslen={} tlvsempty={} walk={}", off(bytes, t.as_bytes()), t.as_bytes().len(), t.len(), t.is_empty(), tlv_walk(bytes, t))
        }
        "auto" => {
            let r = HeaderResult::parse(bytes);
            match &r {
                HeaderResult::V1(x) => format!("V1 {} complete={}", v1b_result(x), r.is_complete()),
                HeaderResult::V2(x) => format!("V2 {} complete={}", v2_result(x), r.is_complete()),
            }
        }
        "v1_fmt" => {
            // payload: ASCII "0" | "4 <src u32> <dst u32> <sp> <dp>" | "6 <src u128> <dst u128> <sp> <dp>"
            let spec = String::from_utf8_lossy(bytes).to_string();
            let f: Vec<&str> = spec.split(' ').collect();
            let a = match f[0] {
                "4" => v1::Addresses::new_tcp4(
                    f[1].parse::<u32>().unwrap(),
                    f[2].parse::<u32>().unwrap(),
                    f[3].parse::<u16>().unwrap(),
                    f[4].parse::<u16>().unwrap(),
                ),
                "6" => v1::Addresses::new_tcp6(
                    f[1].parse::<u128>().unwrap(),
                    f[2].parse::<u128>().unwrap(),
                    f[3].parse::<u16>().unwrap(),
                    f[4].parse::<u16>().unwrap(),
                ),
                _ => v1::Addresses::Unknown,
            };
            let text = a.to_string();
            let r1 = v1::Header::try_from(text.as_str()).map(|h| h.addresses == a && h.header == text && h.to_string() == text).unwrap_or(false);
            let r2 = v1::Header::try_from(text.as_bytes()).map(|h| h.addresses == a && h.header == text).unwrap_or(false);
            let r3 = text.parse::<v1::Addresses>().map(|x| x == a).unwrap_or(false);
            let r4 = text.parse::<v1::Header<'static>>().map(|h| h.addresses == a && h.header == text).unwrap_or(false);
            format!("fmt={} len={} roundtrip={}", hex(text.as_bytes()), text.len(), r1 && r2 && r3 && r4)
        }
        "v2_builder" => builder_history(&String::from_utf8_lossy(bytes)),
        "v2_write_to" => write_to_case(&String::from_utf8_lossy(bytes)),
        "ip4" => match std::str::from_utf8(bytes).ok().and_then(|s| s.parse::<std::net::Ipv4Addr>().ok()) {
            Some(a) => format!("Ok {}", u32::from(a)),
            None => "Err".into(),
        },
        "ip6" => match std::str::from_utf8(bytes).ok().and_then(|s| s.parse::<std::net::Ipv6Addr>().ok()) {
            Some(a) => format!("Ok {}", u128::from(a)),
            None => "Err".into(),
        },
        _ => "UnknownEntry".into(),
    }
}


/// Replays one `write_to` / `to_bytes` call of a WriteToHeader impl (C20) against an independent expectation.
/// spec: `<case>;name=value;...` as produced by mirsym/props_b.py::c20_write_to
fn write_to_case(spec: &str) -> String {
    use ppp::v2::{Addresses, IPv4, IPv6, Type, TypeLengthValue, TypeLengthValues, Unix, WriteToHeader, Writer};
    use std::collections::HashMap;
    let mut parts = spec.split(';');
    let case = parts.next().unwrap_or("");
    let kv: HashMap<&str, &str> = parts.filter_map(|p| p.split_once('=')).collect();
    let num = |k: &str| -> i128 { kv.get(k).and_then(|v| v.trim_matches(|c| c == '(' || c == ')').replace("- ", "-").replace(' ', "").parse::<i128>().ok()).unwrap_or(0) };
    let fill = |n: usize, salt: usize| -> Vec<u8> { (0..n).map(|i| ((i + salt) % 251) as u8).collect() };
    let p = num("qn_pre").max(0) as usize;
    let prefix = fill(p, 7);
    let types = [("ALPN", Type::ALPN, 0x01u8), ("Authority", Type::Authority, 0x02), ("CRC32C", Type::CRC32C, 0x03), ("NoOp", Type::NoOp, 0x04), ("UniqueId", Type::UniqueId, 0x05),
        ("SSL", Type::SSL, 0x20), ("SSLVersion", Type::SSLVersion, 0x21), ("SSLCommonName", Type::SSLCommonName, 0x22), ("SSLCipher", Type::SSLCipher, 0x23),
        ("SSLSignatureAlgorithm", Type::SSLSignatureAlgorithm, 0x24), ("SSLKeyAlgorithm", Type::SSLKeyAlgorithm, 0x25), ("NetworkNamespace", Type::NetworkNamespace, 0x30)];
    let variant = kv.get("variant").copied().unwrap_or("NoOp");
    let (ty, code) = types.iter().find(|t| t.0 == variant).map(|t| (t.1, t.2)).unwrap_or((Type::NoOp, 4));
    // (expected encoding, oversize, fixed-size part, result of write_to on the prefixed writer, result of to_bytes)
    fn run<T: WriteToHeader + ?Sized>(v: &T, prefix: &[u8]) -> (std::io::Result<usize>, Vec<u8>, std::io::Result<Vec<u8>>) {
        let mut w = Writer::from(prefix.to_vec());
        let r = v.write_to(&mut w);
        (r, w.finish(), v.to_bytes())
    }
    let (enc, over, fixed, (r, after, tb)): (Vec<u8>, bool, usize, (std::io::Result<usize>, Vec<u8>, std::io::Result<Vec<u8>>)) = match case {
        c if c.starts_with("int_") => {
            macro_rules! int { ($t:ty) => {{ let x = num(&format!("x_{}", stringify!($t))) as $t; (x.to_be_bytes().to_vec(), false, std::mem::size_of::<$t>(), run(&x, &prefix)) }} }
            match &c[4..] { "u8" => int!(u8), "u16" => int!(u16), "u32" => int!(u32), "u64" => int!(u64), "u128" => { let x = num("x_u128") as u128; (x.to_be_bytes().to_vec(), false, 16, run(&x, &prefix)) }, "usize" => int!(usize),
                "i8" => int!(i8), "i16" => int!(i16), "i32" => int!(i32), "i64" => int!(i64), "i128" => int!(i128), _ => int!(isize) }
        }
        "type" => (vec![code], false, 1, run(&ty, &prefix)),
        "addresses" => {
            let k = num("family");
            match k {
                1 => { let o: Vec<u8> = (0..12).map(|i| num(&format!("ao1_{}", i)) as u8).collect();
                    let a = Addresses::IPv4(IPv4::new([o[0], o[1], o[2], o[3]], [o[4], o[5], o[6], o[7]], u16::from_be_bytes([o[8], o[9]]), u16::from_be_bytes([o[10], o[11]])));
                    (o, false, 12, run(&a, &prefix)) }
                2 => { let o: Vec<u8> = (0..36).map(|i| num(&format!("ao2_{}", i)) as u8).collect();
                    let mut s = [0u8; 16]; s.copy_from_slice(&o[0..16]); let mut d = [0u8; 16]; d.copy_from_slice(&o[16..32]);
                    let a = Addresses::IPv6(IPv6::new(s, d, u16::from_be_bytes([o[32], o[33]]), u16::from_be_bytes([o[34], o[35]])));
                    (o, false, 36, run(&a, &prefix)) }
                3 => { let mut s = [0x41u8; 108]; let mut d = [0x42u8; 108];
                    s[0] = num("ux0") as u8; s[53] = num("ux1") as u8; s[107] = num("ux2") as u8; d[0] = num("ux3") as u8; d[54] = num("ux4") as u8; d[107] = num("ux5") as u8;
                    let mut e = s.to_vec(); e.extend_from_slice(&d);
                    (e, false, 216, run(&Addresses::Unix(Unix::new(s, d)), &prefix)) }
                _ => (vec![], false, 0, run(&Addresses::Unspecified, &prefix)),
            }
        }
        "tlv" | "pair_u8" | "pair_type" => {
            let n = num("qn_tlv").max(0) as usize;
            let v = fill(n, 3);
            let kind = if case == "pair_type" { code } else { num("tk") as u8 };
            let mut e = vec![kind, (n >> 8) as u8, n as u8];
            e.extend_from_slice(&v);
            let res = match case { "tlv" => run(&TypeLengthValue::new(kind, &v), &prefix), "pair_u8" => run(&(kind, v.as_slice()), &prefix), _ => run(&(ty, v.as_slice()), &prefix) };
            (e, n > 65535, 3, res)
        }
        "section" => { let n = num("qn_sec").max(0) as usize; let v = fill(n, 5); let r = run(&TypeLengthValues::from(v.as_slice()), &prefix); (v, false, 0, r) }
        "slice" => { let n = num("qn_sl").max(0) as usize; let v = fill(n, 9); let r = run(v.as_slice(), &prefix); (v, n > 65535, 0, r) }
        "ref_slice" => { let n = num("qn_sl").max(0) as usize; let v = fill(n, 9); let r = run(&v.as_slice(), &prefix); (v, n > 65535, 0, r) }
        _ => return "write_to bad-spec".into(),
    };
    let limit = 65535 + 16;
    let mut want = prefix.clone();
    want.extend_from_slice(&enc);
    let ok_w = match &r {
        Ok(n) => !over && *n == enc.len() && after == want,
        Err(_) => (over && after == prefix) || (!over && p + fixed > limit),
    };
    let ok_t = match &tb { Ok(b) => !over && *b == enc, Err(_) => over };
    format!("write_to ok={} case={} prefix={} enc={} write={:?} to_bytes_ok={}", ok_w && ok_t, case, p, enc.len(), r.as_ref().map_err(|_| "err"), ok_t)
}

/// Replays a builder call history against the real Builder and an independent ghost.
/// spec: `new:VC:AFP` or `ipv4:VC:PROTO:<24 hex digits>` followed by `;`-separated ops:
/// setsome:X setnone reserve:C u8:X u16:X type slice:N tlv:T:N batch:N:Y
fn builder_history(spec: &str) -> String {
    use ppp::v2::{Addresses, Builder, IPv4, Protocol, Type};
    let mut parts = spec.split(';');
    let ctor: Vec<&str> = parts.next().unwrap_or("").split(':').collect();
    let num = |s: &str| s.parse::<u64>().unwrap_or(0);
    let mut expect: Vec<u8> = Vec::new();
    let mut explicit: Option<u16> = None;
    let (mut b, vc, afp) = if ctor[0] == "unix" {
        let vc = num(ctor[1]) as u8;
        let p = num(ctor[2]) as u8;
        let proto = match p { 0 => Protocol::Unspecified, 1 => Protocol::Stream, _ => Protocol::Datagram };
        let sv = unhex(ctor[3]);
        let mut s = [0x41u8; 108];
        let mut d = [0x42u8; 108];
        s[0] = sv[0]; s[53] = sv[1]; s[107] = sv[2];
        d[0] = sv[3]; d[54] = sv[4]; d[107] = sv[5];
        expect.extend_from_slice(&s);
        expect.extend_from_slice(&d);
        (Builder::with_addresses(vc, proto, Addresses::Unix(ppp::v2::Unix::new(s, d))), vc, 0x30 | p)
    } else if ctor[0] == "ipv4" {
        let vc = num(ctor[1]) as u8;
        let p = num(ctor[2]) as u8;
        let proto = match p { 0 => Protocol::Unspecified, 1 => Protocol::Stream, _ => Protocol::Datagram };
        let ab = unhex(ctor[3]);
        expect.extend_from_slice(&ab);
        let a = IPv4::new([ab[0], ab[1], ab[2], ab[3]], [ab[4], ab[5], ab[6], ab[7]], u16::from_be_bytes([ab[8], ab[9]]), u16::from_be_bytes([ab[10], ab[11]]));
        (Builder::with_addresses(vc, proto, Addresses::IPv4(a)), vc, 0x10 | p)
    } else {
        let (vc, afp) = (num(ctor[1]) as u8, num(ctor[2]) as u8);
        (Builder::new(vc, afp), vc, afp)
    };
    let fill = |n: usize| -> Vec<u8> { (0..n).map(|i| (i % 251) as u8).collect() };
    for (i, op) in parts.enumerate() {
        let f: Vec<&str> = op.split(':').collect();
        let before = expect.len();
        let r = match f[0] {
            "setsome" => { explicit = Some(num(f[1]) as u16); Ok(b.set_length(num(f[1]) as u16)) }
            "setnone" => { explicit = None; Ok(b.set_length(None)) }
            "reserve" => Ok(b.reserve_capacity(num(f[1]) as usize)),
            "u8" => { expect.push(num(f[1]) as u8); b.write_payload(num(f[1]) as u8) }
            "u16" => { expect.extend_from_slice(&(num(f[1]) as u16).to_be_bytes()); b.write_payload(num(f[1]) as u16) }
            "type" => { expect.push(4); b.write_payload(Type::NoOp) }
            "slice" => { let v = fill(num(f[1]) as usize); expect.extend_from_slice(&v); b.write_payload(v.as_slice()) }
            "tlv" => {
                let v = fill(num(f[2]) as usize);
                expect.push(num(f[1]) as u8);
                expect.extend_from_slice(&(v.len() as u16).to_be_bytes());
                expect.extend_from_slice(&v);
                b.write_tlv(num(f[1]) as u8, v.as_slice())
            }
            "tlvs" => {
                let v = fill(num(f[2]) as usize);
                expect.push(num(f[1]) as u8);
                expect.extend_from_slice(&(v.len() as u16).to_be_bytes());
                expect.extend_from_slice(&v);
                b.write_payload(ppp::v2::TypeLengthValue::new(num(f[1]) as u8, v.as_slice()))
            }
            "batch" => {
                let v = fill(num(f[1]) as usize);
                let y = [num(f[2]) as u8];
                expect.extend_from_slice(&v);
                expect.push(y[0]);
                b.write_payloads([v.as_slice(), &y[..]])
            }
            _ => return "builder bad-spec".into(),
        };
        match r {
            Ok(nb) => {
                // a single slice / TLV value above 65535 bytes must be refused (C09, C20)
                let n = match f[0] { "slice" | "batch" => num(f[1]) as usize, "tlv" | "tlvs" => num(f[2]) as usize, _ => 0 };
                if n > 65535 {
                    return format!("builder call {} ({}) accepted a value of {} bytes legit=false", i, f[0], n);
                }
                b = nb
            }
            Err(_) => {
                let n = match f[0] { "slice" | "batch" => num(f[1]) as usize, "tlv" | "tlvs" => num(f[2]) as usize, _ => 0 };
                let fixed = match f[0] { "tlv" | "tlvs" => 3, "batch" => n, "slice" => 0, "u16" => 2, _ => 1 };
                let legit = n > 65535 || before + fixed > 65535;
                return format!("builder call {} ({}) failed legit={}", i, f[0], legit);
            }
        }
    }
    match b.build() {
        Ok(out) => {
            let field = if out.len() >= 16 { u16::from_be_bytes([out[14], out[15]]) as usize } else { usize::MAX };
            let want = explicit.map(|x| x as usize).unwrap_or(expect.len());
            let c09 = field == want && (explicit.is_some() || expect.len() <= 65535);
            let c10 = out.len() == 16 + expect.len() && out[..12] == [0x0D, 0x0A, 0x0D, 0x0A, 0x00, 0x0D, 0x0A, 0x51, 0x55, 0x49, 0x54, 0x0A] && out[12] == vc && out[13] == afp && out[16..] == expect[..];
            format!("builder built len={} field={} c09={} c10={}", out.len(), field, c09, c10)
        }
        Err(_) => format!("builder build failed legit={}", explicit.is_none() && expect.len() > 65535),
    }
}

fn main() {
    std::panic::set_hook(Box::new(|_| {}));
    let stdin = std::io::stdin();
    let out = std::io::stdout();
    let mut out = out.lock();
    for line in stdin.lock().lines() {
        let line = line.unwrap();
        let mut it = line.split_whitespace();
        let entry = it.next().unwrap_or("");
        let bytes = unhex(it.next().unwrap_or(""));
        let r = catch_unwind(AssertUnwindSafe(|| handle(entry, &bytes)));
        let text = match r {
            Ok(t) => t,
            Err(p) => {
                let msg = p.downcast_ref::<String>().cloned().or_else(|| p.downcast_ref::<&str>().map(|s| s.to_string())).unwrap_or_default();
                format!("Panic {}", msg.chars().map(|c| if c.is_control() { ' ' } else { c }).collect::<String>())
            }
        };
        writeln!(out, "{}", text).unwrap();
    }
}
