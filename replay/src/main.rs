//! Native replay / differential-validation binary for Engine M.
//! stdin: one request per line  `<entry> <hex bytes> [extra]`
//! stdout: one line per request with a canonical rendering of what the real crate did.
//! entries: v1_str v1_bytes v1_fromstr_addresses v1_fromstr_header v2 auto v1_views v1_display
use ppp::v1;
use ppp::v2;
use ppp::{HeaderResult, PartialResult};
use std::io::{BufRead, Write};
use std::panic::{catch_unwind, AssertUnwindSafe};

fn unhex(s: &str) -> Vec<u8> {
    (0..s.len() / 2).map(|i| u8::from_str_radix(&s[2 * i..2 * i + 2], 16).unwrap()).collect()
}
fn hex(b: &[u8]) -> String {
    b.iter().map(|x| format!("{:02x}", x)).collect()
}

fn addrs1(a: &v1::Addresses) -> String {
    match a {
        v1::Addresses::Unknown => "Unknown".to_string(),
        v1::Addresses::Tcp4(x) => format!(
            "Tcp4 {} {} {} {}",
            u32::from(x.source_address),
            u32::from(x.destination_address),
            x.source_port,
            x.destination_port
        ),
        v1::Addresses::Tcp6(x) => format!(
            "Tcp6 {} {} {} {}",
            u128::from(x.source_address),
            u128::from(x.destination_address),
            x.source_port,
            x.destination_port
        ),
    }
}

fn perr(e: &v1::ParseError) -> String {
    use v1::ParseError::*;
    let kind = |k: &std::num::IntErrorKind| format!("{:?}", k);
    match e {
        InvalidSourcePort(p) => format!("InvalidSourcePort({})", p.as_ref().map(|x| kind(x.kind())).unwrap_or("None".into())),
        InvalidDestinationPort(p) => {
            format!("InvalidDestinationPort({})", p.as_ref().map(|x| kind(x.kind())).unwrap_or("None".into()))
        }
        InvalidSourceAddress(_) => "InvalidSourceAddress".into(),
        InvalidDestinationAddress(_) => "InvalidDestinationAddress".into(),
        other => format!("{:?}", other),
    }
}

fn v1_result(r: &Result<v1::Header<'_>, v1::ParseError>) -> String {
    match r {
        Ok(h) => format!("Ok len={} addr={} inc={}", h.header.len(), addrs1(&h.addresses), r.is_incomplete()),
        Err(e) => format!("Err {} inc={}", perr(e), r.is_incomplete()),
    }
}
fn v1b_result(r: &Result<v1::Header<'_>, v1::BinaryParseError>) -> String {
    match r {
        Ok(h) => format!("Ok len={} addr={} inc={}", h.header.len(), addrs1(&h.addresses), r.is_incomplete()),
        Err(v1::BinaryParseError::Parse(e)) => format!("Err {} inc={}", perr(e), r.is_incomplete()),
        Err(v1::BinaryParseError::InvalidUtf8(_)) => format!("Err InvalidUtf8 inc={}", r.is_incomplete()),
    }
}
fn v2_result(r: &Result<v2::Header<'_>, v2::ParseError>) -> String {
    match r {
        Ok(h) => format!("Ok len={} inc={}", h.header.len(), r.is_incomplete()),
        Err(e) => format!("Err {:?} inc={}", e, r.is_incomplete()),
    }
}

fn handle(entry: &str, bytes: &[u8]) -> String {
    match entry {
        "v1_str" | "v1_fromstr_addresses" | "v1_fromstr_header" | "v1_views" => {
            let s = match std::str::from_utf8(bytes) {
                Ok(s) => s,
                Err(_) => return "NotUtf8".into(),
            };
            match entry {
                "v1_str" => v1_result(&v1::Header::try_from(s)),
                "v1_fromstr_addresses" => match s.parse::<v1::Addresses>() {
                    Ok(a) => format!("Ok addr={}", addrs1(&a)),
                    Err(e) => format!("Err {}", perr(&e)),
                },
                "v1_fromstr_header" => match s.parse::<v1::Header<'static>>() {
                    Ok(h) => format!("Ok len={} addr={} inc=false", h.header.len(), addrs1(&h.addresses)),
                    Err(e) => format!("Err {}", perr(&e)),
                },
                _ => match v1::Header::try_from(s) {
                    Ok(h) => format!(
                        "Ok protocol={} addresses_str={} display={} owned_eq={}",
                        hex(h.protocol().as_bytes()),
                        hex(h.addresses_str().as_bytes()),
                        hex(h.to_string().as_bytes()),
                        h.to_owned() == h
                    ),
                    Err(e) => format!("Err {}", perr(&e)),
                },
            }
        }
        "v1_bytes" => v1b_result(&v1::Header::try_from(bytes)),
        "v2" => v2_result(&v2::Header::try_from(bytes)),
        "auto" => {
            let r = HeaderResult::parse(bytes);
            match &r {
                HeaderResult::V1(x) => format!("V1 {} complete={}", v1b_result(x), r.is_complete()),
                HeaderResult::V2(x) => format!("V2 {} complete={}", v2_result(x), r.is_complete()),
            }
        }
        "v1_fmt" => {
            // payload: ASCII "0" | "4 <src u32> <dst u32> <sp> <dp>" | "6 <src u128> <dst u128> <sp> <dp>"
            let spec = String::from_utf8_lossy(bytes).to_string();
            let f: Vec<&str> = spec.split(' ').collect();
            let a = match f[0] {
                "4" => v1::Addresses::new_tcp4(
                    f[1].parse::<u32>().unwrap(),
                    f[2].parse::<u32>().unwrap(),
                    f[3].parse::<u16>().unwrap(),
                    f[4].parse::<u16>().unwrap(),
                ),
                "6" => v1::Addresses::new_tcp6(
                    f[1].parse::<u128>().unwrap(),
                    f[2].parse::<u128>().unwrap(),
                    f[3].parse::<u16>().unwrap(),
                    f[4].parse::<u16>().unwrap(),
                ),
                _ => v1::Addresses::Unknown,
            };
            let text = a.to_string();
            let r1 = v1::Header::try_from(text.as_str()).map(|h| h.addresses == a && h.header == text && h.to_string() == text).unwrap_or(false);
            let r2 = v1::Header::try_from(text.as_bytes()).map(|h| h.addresses == a && h.header == text).unwrap_or(false);
            let r3 = text.parse::<v1::Addresses>().map(|x| x == a).unwrap_or(false);
            let r4 = text.parse::<v1::Header<'static>>().map(|h| h.addresses == a && h.header == text).unwrap_or(false);
            format!("fmt={} len={} roundtrip={}", hex(text.as_bytes()), text.len(), r1 && r2 && r3 && r4)
        }
        "v2_builder" => builder_history(&String::from_utf8_lossy(bytes)),
        "ip4" => match std::str::from_utf8(bytes).ok().and_then(|s| s.parse::<std::net::Ipv4Addr>().ok()) {
            Some(a) => format!("Ok {}", u32::from(a)),
            None => "Err".into(),
        },
        "ip6" => match std::str::from_utf8(bytes).ok().and_then(|s| s.parse::<std::net::Ipv6Addr>().ok()) {
            Some(a) => format!("Ok {}", u128::from(a)),
            None => "Err".into(),
        },
        _ => "UnknownEntry".into(),
    }
}

/// Replays a builder call history against the real Builder and an independent ghost.
/// spec: `new:VC:AFP` or `ipv4:VC:PROTO:<24 hex digits>` followed by `;`-separated ops:
/// setsome:X setnone reserve:C u8:X u16:X type slice:N tlv:T:N batch:N:Y
fn builder_history(spec: &str) -> String {
    use ppp::v2::{Addresses, Builder, IPv4, Protocol, Type};
    let mut parts = spec.split(';');
    let ctor: Vec<&str> = parts.next().unwrap_or("").split(':').collect();
    let num = |s: &str| s.parse::<u64>().unwrap_or(0);
    let mut expect: Vec<u8> = Vec::new();
    let mut explicit: Option<u16> = None;
    let (mut b, vc, afp) = if ctor[0] == "unix" {
        let vc = num(ctor[1]) as u8;
        let p = num(ctor[2]) as u8;
        let proto = match p { 0 => Protocol::Unspecified, 1 => Protocol::Stream, _ => Protocol::Datagram };
        let sv = unhex(ctor[3]);
        let mut s = [0x41u8; 108];
        let mut d = [0x42u8; 108];
        s[0] = sv[0]; s[53] = sv[1]; s[107] = sv[2];
        d[0] = sv[3]; d[54] = sv[4]; d[107] = sv[5];
        expect.extend_from_slice(&s);
        expect.extend_from_slice(&d);
        (Builder::with_addresses(vc, proto, Addresses::Unix(ppp::v2::Unix::new(s, d))), vc, 0x30 | p)
    } else if ctor[0] == "ipv4" {
        let vc = num(ctor[1]) as u8;
        let p = num(ctor[2]) as u8;
        let proto = match p { 0 => Protocol::Unspecified, 1 => Protocol::Stream, _ => Protocol::Datagram };
        let ab = unhex(ctor[3]);
        expect.extend_from_slice(&ab);
        let a = IPv4::new([ab[0], ab[1], ab[2], ab[3]], [ab[4], ab[5], ab[6], ab[7]], u16::from_be_bytes([ab[8], ab[9]]), u16::from_be_bytes([ab[10], ab[11]]));
        (Builder::with_addresses(vc, proto, Addresses::IPv4(a)), vc, 0x10 | p)
    } else {
        let (vc, afp) = (num(ctor[1]) as u8, num(ctor[2]) as u8);
        (Builder::new(vc, afp), vc, afp)
    };
    let fill = |n: usize| -> Vec<u8> { (0..n).map(|i| (i % 251) as u8).collect() };
    for (i, op) in parts.enumerate() {
        let f: Vec<&str> = op.split(':').collect();
        let before = expect.len();
        let r = match f[0] {
            "setsome" => { explicit = Some(num(f[1]) as u16); Ok(b.set_length(num(f[1]) as u16)) }
            "setnone" => { explicit = None; Ok(b.set_length(None)) }
            "reserve" => Ok(b.reserve_capacity(num(f[1]) as usize)),
            "u8" => { expect.push(num(f[1]) as u8); b.write_payload(num(f[1]) as u8) }
            "u16" => { expect.extend_from_slice(&(num(f[1]) as u16).to_be_bytes()); b.write_payload(num(f[1]) as u16) }
            "type" => { expect.push(4); b.write_payload(Type::NoOp) }
            "slice" => { let v = fill(num(f[1]) as usize); expect.extend_from_slice(&v); b.write_payload(v.as_slice()) }
            "tlv" => {
                let v = fill(num(f[2]) as usize);
                expect.push(num(f[1]) as u8);
                expect.extend_from_slice(&(v.len() as u16).to_be_bytes());
                expect.extend_from_slice(&v);
                b.write_tlv(num(f[1]) as u8, v.as_slice())
            }
            "batch" => {
                let v = fill(num(f[1]) as usize);
                let y = [num(f[2]) as u8];
                expect.extend_from_slice(&v);
                expect.push(y[0]);
                b.write_payloads([v.as_slice(), &y[..]])
            }
            _ => return "builder bad-spec".into(),
        };
        match r {
            Ok(nb) => b = nb,
            Err(_) => {
                let n = match f[0] { "slice" | "batch" => num(f[1]) as usize, "tlv" => num(f[2]) as usize, _ => 0 };
                let fixed = match f[0] { "tlv" => 3, "batch" => n, "slice" => 0, "u16" => 2, _ => 1 };
                let legit = n > 65535 || before + fixed > 65535;
                return format!("builder call {} ({}) failed legit={}", i, f[0], legit);
            }
        }
    }
    match b.build() {
        Ok(out) => {
            let field = if out.len() >= 16 { u16::from_be_bytes([out[14], out[15]]) as usize } else { usize::MAX };
            let want = explicit.map(|x| x as usize).unwrap_or(expect.len());
            let c09 = field == want && (explicit.is_some() || expect.len() <= 65535);
            let c10 = out.len() == 16 + expect.len() && out[..12] == [0x0D, 0x0A, 0x0D, 0x0A, 0x00, 0x0D, 0x0A, 0x51, 0x55, 0x49, 0x54, 0x0A] && out[12] == vc && out[13] == afp && out[16..] == expect[..];
            format!("builder built len={} field={} c09={} c10={}", out.len(), field, c09, c10)
        }
        Err(_) => format!("builder build failed legit={}", explicit.is_none() && expect.len() > 65535),
    }
}

fn main() {
    std::panic::set_hook(Box::new(|_| {}));
    let stdin = std::io::stdin();
    let out = std::io::stdout();
    let mut out = out.lock();
    for line in stdin.lock().lines() {
        let line = line.unwrap();
        let mut it = line.split_whitespace();
        let entry = it.next().unwrap_or("");
        let bytes = unhex(it.next().unwrap_or(""));
        let r = catch_unwind(AssertUnwindSafe(|| handle(entry, &bytes)));
        let text = match r {
            Ok(t) => t,
            Err(p) => {
                let msg = p.downcast_ref::<String>().cloned().or_else(|| p.downcast_ref::<&str>().map(|s| s.to_string())).unwrap_or_default();
                format!("Panic {}", msg.chars().map(|c| if c.is_control() { ' ' } else { c }).collect::<String>())
            }
        };
        writeln!(out, "{}", text).unwrap();
    }
}
