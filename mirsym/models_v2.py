"""std models for the v2 (binary) half in Engine M: an input buffer of *unbounded* symbolic length
(bytes are an uninterpreted function Int -> Int whose range facts are introduced lazily, at each read),
byte-slice comparison, big/little-endian decoding, fixed arrays filled by copy_from_slice, the std address
constructors, Vec copies of slices. None of them scans the input: the v2 parser only reads fixed offsets and
the TLV cursor, so no per-position helper axioms (and therefore no LMAX) are needed."""
import re
import z3
from core import *
import models
from models import Some, NoneV, Ok, Err

I = z3.IntSort()


class RBuf(Buf):
    """symbolic byte buffer of unbounded length; every read S(i) is accompanied by 0 <= S(i) <= 255,
    added to the path of the executor that is currently running (a definition-kind item, never negated)."""

    def __init__(self, name, fn, length):
        Buf.__init__(self, name, fn=fn, length=length)
        self.ex = None
        self.seen = set()

    def attach(self, ex):
        self.ex = ex
        self.seen = set()

    def at(self, i):
        t = self.fn(Z(i))
        if self.ex is not None:
            k = t.get_id()
            if k not in self.seen:
                self.seen.add(k)
                self._keep = getattr(self, '_keep', [])
                self._keep.append(t)
                self.ex.assume(z3.And(t >= 0, t <= 255), 'd')
        return t


class V2Input:
    """S[0..L): L is any length a Rust slice can have (0 <= L <= isize::MAX): no buffer-size bound."""

    def __init__(self, suffix='', share=None):
        self.suffix = suffix
        self.S = share.S if share is not None else z3.Function('V' + suffix, I, I)
        self.L = z3.Int('VL' + suffix)
        self.buf = RBuf('v2in' + suffix, self.S, self.L)
        self.lmax = 0
        # range facts of the fixed-offset bytes (fixed part + largest address block) as base axioms
        self.axioms = [self.L >= 0, self.L <= 2 ** 63 - 1] + [z3.And(self.S(j) >= 0, self.S(j) <= 255) for j in range(16 + 216)]

    def slice(self):
        return Str(self.buf, 0, self.L, is_str=False)

    def byte(self, i):
        return self.S(Z(i))


class ListBuf(Buf):
    """buffer whose content is a fixed list of byte terms (a snapshot of a local array)"""

    def __init__(self, name, items):
        Buf.__init__(self, name)
        self.items = list(items)

    def at(self, i):
        if isinstance(i, int):
            return self.items[i] if 0 <= i < len(self.items) else 0
        e = Z(self.items[-1]) if self.items else z3.IntVal(0)
        for k in range(len(self.items) - 2, -1, -1):
            e = z3.If(i == k, Z(self.items[k]), e)
        return e


class ArrView:
    """&mut [u8] / &[u8] view of a fixed array value held in a cell: (tuple, start, end) with concrete bounds"""

    def __init__(self, tup, start, end):
        self.tup = tup
        self.start = start
        self.end = end

    def len(self):
        return sub(self.end, self.start)

    def index_val(self, i):
        return index_val(Tuple(self.tup.items), add(self.start, i))


def as_slice(v):
    """normalise slice-like values to Str / ArrSlice"""
    if isinstance(v, Ref):
        v = deref(v)
    if isinstance(v, Opaque) and v.kind == 'bytearray':
        return Str(v.buf, 0, v.n, False)
    if isinstance(v, Opaque) and v.kind == 'VecU8':
        return v.s
    if isinstance(v, Tuple):
        return ArrSlice(v.items)
    if isinstance(v, ArrView):
        if isinstance(v.start, int) and isinstance(v.end, int):
            return ArrSlice(v.tup.items[v.start:v.end])
        return Str(ListBuf('arr', v.tup.items), v.start, v.end, False)
    return v


def slice_eq(ex, a, b):
    a, b = as_slice(a), as_slice(b)
    if isinstance(a, Str) and isinstance(b, Str):
        if a.concrete() or b.concrete():
            return models.str_eq(ex, a, b)
        if a.buf is b.buf and eq(a.start, b.start) is True:
            return eq(a.end, b.end)
        raise Unsupported('comparison of two symbolic-length slices')
    if isinstance(a, ArrSlice) and isinstance(b, Str):
        a, b = b, a
    if isinstance(a, Str) and isinstance(b, ArrSlice):
        return and_(eq(a.len(), len(b.items)), *[eq(models.byte_at(a, i), x) for i, x in enumerate(b.items)])
    if isinstance(a, ArrSlice) and isinstance(b, ArrSlice):
        if len(a.items) != len(b.items):
            return False
        return and_(*[eq(x, y) for x, y in zip(a.items, b.items)])
    raise Unsupported('slice comparison %r == %r' % (a, b))


def hook(ex, func, argv, frame):
    f = func
    g = strip_generics(f)
    a = argv
    if g in ('<&[u8] as std::cmp::PartialEq>::ne', '<&[u8] as std::cmp::PartialEq>::eq', '<[u8] as std::cmp::PartialEq>::eq', '<[u8] as std::cmp::PartialEq>::ne',
             '<&[T] as std::cmp::PartialEq>::eq', '<&[T] as std::cmp::PartialEq>::ne', '<[T] as std::cmp::PartialEq>::eq', '<[T] as std::cmp::PartialEq>::ne') \
            or re.match(r'^<(&?\[u8(; \d+)?\]|&?\[T\]) as std::cmp::PartialEq(<.*>)?>::(eq|ne)$', f):
        e = slice_eq(ex, deref(a[0]), deref(a[1]))
        return True, (not_(e) if g.endswith('::ne') else e)
    m = re.match(r'^core::num::<impl (u16|u32|u64|u128|usize)>::from_(be|le|ne)_bytes$', g)
    if m:
        items = list(deref(a[0]).items) if not isinstance(a[0], Tuple) else list(a[0].items)
        if m.group(2) in ('le', 'ne'):      # x86-64 / aarch64 targets of this image are little-endian
            items = items[::-1]
        v = 0
        for x in items:
            v = add(mul(v, 256), x)
        return True, v
    if g == 'std::net::Ipv4Addr::new':
        octs = list(a[:4])
        val = 0
        for x in octs:
            val = add(mul(val, 256), x)
        return True, Opaque('ip', fam=4, val=val, octs=octs)
    mm = re.match(r'^<std::net::Ipv([46])Addr as std::convert::From<\[u8; (\d+)\]>>::from$', f)
    if mm:
        t = a[0]
        octs = list(t.items)
        val = 0
        for x in octs:
            val = add(mul(val, 256), x)
        return True, Opaque('ip', fam=int(mm.group(1)), val=val, octs=octs)
    mm = re.match(r'^<\[\w+; (\d+)\] as std::ops::Index(Mut)?<std::ops::RangeFull>>::index(_mut)?$', f)
    if mm:
        t = deref(a[0])
        return True, ArrView(t, 0, len(t.items))
    mm = re.match(r'^<\[\w+; (\d+)\] as std::ops::Index(Mut)?<std::ops::Range(To|From)?<usize>>>::index(_mut)?$', f)
    if mm and isinstance(deref(a[0]), Tuple):
        t = deref(a[0])
        r = a[1]
        start = r.get('start') if 'start' in r.names else 0
        end = r.get('end') if 'end' in r.names else len(t.items)
        if not ex.branch(le(start, end)):
            raise Panic('slice index starts after its end (array)')
        if not ex.branch(le(end, len(t.items))):
            raise Panic('range end index out of range for array')
        if not f.endswith('index_mut'):
            return True, as_slice(ArrView(t, start, end))     # immutable view: a snapshot slice
        return True, ArrView(t, start, end)
    if g in ('core::slice::<impl [u8]>::copy_from_slice', 'core::slice::<impl [T]>::copy_from_slice') and isinstance(a[0], ArrView):
        view, src = a[0], as_slice(a[1])
        n = view.len()
        if not ex.branch(eq(src.len() if not isinstance(src, ArrSlice) else len(src.items), n)):
            raise Panic('copy_from_slice: source slice length does not match destination')
        if isinstance(n, int) and isinstance(view.start, int):
            for k in range(n):
                view.tup.items[view.start + k] = src.items[k] if isinstance(src, ArrSlice) else models.byte_at(src, k)
            return True, Tuple([])
        # symbolic window [start, end) of a fixed array: element k becomes src[k - start] inside the window
        if isinstance(src, ArrSlice):
            src = Str(ListBuf('arrsrc', src.items), 0, len(src.items), False)
        old = list(view.tup.items)
        for k in range(len(old)):
            inside = and_(le(view.start, k), lt(k, view.end))
            if inside is False:
                continue
            view.tup.items[k] = ite(inside, models.byte_at(src, sub(k, view.start)), old[k])
        return True, Tuple([])
    if g in ('std::slice::<impl [u8]>::to_vec', 'std::slice::<impl [T]>::to_vec', 'alloc::slice::<impl [T]>::to_vec'):
        return True, Opaque('VecU8', s=as_slice(a[0]))
    if g in ('<std::borrow::Cow as std::ops::Deref>::deref', '<std::borrow::Cow as std::convert::AsRef>::as_ref', '<std::borrow::Cow as std::borrow::Borrow>::borrow'):
        c = deref(a[0])
        return True, as_slice(c.fields[0])
    if re.match(r'^<(&?\[u8\]|&?\[T\]|&?str|\[u8; \d+\]) as std::convert::AsRef(<.*>)?>::as_ref$', f) or \
            re.match(r'^<(&?\[u8\]|&?\[T\]|\[u8; \d+\]) as std::borrow::Borrow(<.*>)?>::borrow$', f):
        return True, as_slice(a[0])
    if g in ('<std::vec::Vec as std::ops::Deref>::deref', 'std::vec::Vec::as_slice') and isinstance(deref(a[0]), Opaque) and deref(a[0]).kind == 'VecU8':
        return True, deref(a[0]).s
    if g in ('core::slice::<impl [u8]>::is_empty', 'core::slice::<impl [T]>::is_empty'):
        s = as_slice(a[0])
        return True, eq(s.len() if not isinstance(s, ArrSlice) else len(s.items), 0)
    if g in ('core::slice::<impl [u8]>::len', 'core::slice::<impl [T]>::len'):
        s = as_slice(a[0])
        return True, (s.len() if not isinstance(s, ArrSlice) else len(s.items))
    if g in ('core::slice::<impl [u8]>::first', 'core::slice::<impl [T]>::first', 'core::slice::<impl [u8]>::last', 'core::slice::<impl [T]>::last'):
        s = as_slice(a[0])
        if not isinstance(s, Str):
            raise Unsupported(g + ' on ' + repr(s))
        if ex.branch(gt(s.len(), 0)):
            i = 0 if g.endswith('first') else sub(s.len(), 1)
            return True, Some(Ref(Cell(models.byte_at(s, i))))
        return True, NoneV()
    if g in ('core::slice::<impl [u8]>::get', 'core::slice::<impl [T]>::get') and f.endswith('::<usize>'):
        s = as_slice(a[0])
        if not isinstance(s, Str):
            raise Unsupported(g + ' on ' + repr(s))
        if ex.branch(lt(a[1], s.len())):
            return True, Some(Ref(Cell(models.byte_at(s, a[1]))))
        return True, NoneV()
    if g in ('core::slice::<impl [u8]>::split_at', 'core::slice::<impl [T]>::split_at'):
        s = as_slice(a[0])
        if not isinstance(s, Str):
            raise Unsupported(g + ' on ' + repr(s))
        if not ex.branch(le(a[1], s.len())):
            raise Panic('split_at: mid > len')
        mid = add(s.start, a[1])
        return True, Tuple([Str(s.buf, s.start, mid, False), Str(s.buf, mid, s.end, False)])
    if g in ('core::slice::<impl [u8]>::split_first', 'core::slice::<impl [T]>::split_first'):
        s = as_slice(a[0])
        if ex.branch(gt(s.len(), 0)):
            return True, Some(Tuple([Ref(Cell(models.byte_at(s, 0))), Str(s.buf, add(s.start, 1), s.end, False)]))
        return True, NoneV()
    mm = re.match(r'^<(u16|u32|u64|usize|u128) as std::convert::From<(u8|u16|u32)>>::from$', f)
    if mm:
        return True, a[0]
    mm = re.match(r'^<(u8|u16|u32|u64|usize) as std::convert::TryFrom<(u16|u32|u64|usize)>>::try_from$', f)
    if mm:
        lo, hi = int_range(mm.group(1))
        if ex.branch(le(a[0], hi)):
            return True, Ok(a[0])
        return True, Err(Opaque('TryFromIntError'))
    mm = re.match(r'^<\[u8; (\d+)\] as std::convert::TryFrom<&\[u8\]>>::try_from$', f)
    if mm:
        s = as_slice(a[0])
        n = int(mm.group(1))
        if ex.branch(eq(s.len(), n)):
            return True, Ok(Tuple([models.byte_at(s, k) for k in range(n)]))
        return True, Err(Opaque('TryFromSliceError'))
    if g == 'std::result::Result::unwrap' or g == 'std::result::Result::expect':
        if a[0].variant == 'Ok':
            return True, a[0].fields[0]
        raise Panic('called `Result::unwrap()` on an `Err` value')
    if g == 'std::option::Option::unwrap' or g == 'std::option::Option::expect':
        if a[0].variant == 'Some':
            return True, a[0].fields[0]
        raise Panic('called `Option::unwrap()` on a `None` value')
    return False, None
