"""std models for the builder half (Engine M): Vec<u8> as a *segment list* (concrete-length runs of
symbolic bytes and symbolic-length slice references), io::Write::write_all as std's loop around the
crate's own Writer::write MIR, integer/array helpers. Sizes are mathematical Ints: no size bound.
Vec capacity is not modelled (it has no observable effect; that clause of C10 rests on Engine K)."""
import re
import z3
from core import *
import models
from models import Some, NoneV, Ok, Err


class Seg:
    """a Vec<u8>: list of ('b', [byte exprs]) | ('s', Str slice of symbolic length)"""

    def __init__(self, segs=None):
        self.segs = segs or []

    def length(self):
        n = 0
        for k, v in self.segs:
            n = add(n, len(v) if k == 'b' else v.len())
        return n

    def len(self):
        return self.length()

    def push_bytes(self, items):
        if self.segs and self.segs[-1][0] == 'b':
            self.segs[-1][1].extend(items)
        else:
            self.segs.append(('b', list(items)))

    def push_slice(self, s):
        if isinstance(s, ArrSlice):
            self.push_bytes(s.items)
            return
        if isinstance(s, VecView):
            raise Unsupported('extend from a Vec view')
        if isinstance(s, Str) and s.concrete():
            self.push_bytes(list(s.bytes()))
            return
        self.segs.append(('s', s))

    def norm(self):
        out = []
        for k, v in self.segs:
            if k == 'b' and not v:
                continue
            if k == 'b' and out and out[-1][0] == 'b':
                out[-1] = ('b', out[-1][1] + list(v))
            else:
                out.append((k, list(v) if k == 'b' else v))
        return out

    def __repr__(self):
        return 'Vec' + repr([(k, (len(v) if k == 'b' else repr(v))) for k, v in self.segs])


class VecView:
    """&[u8] / &mut [u8] view into a Seg: [start, end) (end None = to the end)"""

    def __init__(self, vec, start, end):
        self.vec = vec
        self.start = start
        self.end = end

    def len(self):
        return sub(self.vec.length() if self.end is None else self.end, self.start)


def be_bytes(x, n):
    if isinstance(x, int):
        return list((x % (256 ** n)).to_bytes(n, 'big'))
    out = []
    for i in range(n - 1, -1, -1):
        out.append((Z(x) / (256 ** i)) % 256)
    return out


def writer_write_name(ex):
    c = [n for n in ex.fns if n.endswith('>::write') and 'v2::builder' in n]
    if len(c) != 1:
        raise Unsupported('Writer::write not found')
    return c[0]


def slice_from(ex, buf, n):
    """&buf[n..] for the slice kinds the builder uses"""
    if isinstance(buf, Str):
        return Str(buf.buf, add(buf.start, n), buf.end, buf.is_str)
    if isinstance(buf, ArrSlice):
        if isinstance(n, int):
            return ArrSlice(buf.items[n:])
        if len(buf.items) > 8:
            import models_v2
            return Str(models_v2.ListBuf('arr', buf.items), n, len(buf.items), False)
        for k in range(len(buf.items) + 1):
            if ex.branch(eq(n, k)):
                return ArrSlice(buf.items[k:])
        raise Infeasible()
    raise Unsupported('slice_from ' + repr(buf))


def slice_to(ex, buf, n):
    if isinstance(buf, Str):
        return Str(buf.buf, buf.start, add(buf.start, n), buf.is_str)
    if isinstance(buf, ArrSlice):
        if isinstance(n, int):
            return ArrSlice(buf.items[:n])
        if len(buf.items) > 8:
            import models_v2
            return Str(models_v2.ListBuf('arr', buf.items), 0, n, False)
        for k in range(len(buf.items) + 1):
            if ex.branch(eq(n, k)):
                return ArrSlice(buf.items[:k])
        raise Infeasible()
    raise Unsupported('slice_to ' + repr(buf))


def hook(ex, func, argv, frame):
    f = func
    g = strip_generics(f)
    a = argv
    if g == '<v2::builder::Writer as std::io::Write>::write_all':
        # std::io::Write::write_all: loop { if buf.is_empty() break; match self.write(buf) { Ok(0) => Err(WriteZero),
        #   Ok(n) => buf = &buf[n..], Err(e) (not Interrupted) => return Err(e) } }
        w, buf = a
        if isinstance(buf, Ref):
            buf = deref(buf)
        wname = writer_write_name(ex)
        for _ in range(4):
            if ex.branch(eq(deref_len(buf), 0)):
                return True, Ok(Tuple([]))
            r = ex.call_fn(wname, [w, buf], {})
            if r.variant == 'Err':
                return True, r
            n = r.fields[0]
            if ex.branch(eq(n, 0)):
                return True, Err(Opaque('ioerror', k='WriteZero(write_all)'))
            if not ex.branch(le(n, deref_len(buf))):
                raise Panic('slice index out of range in write_all (write returned more than it was given)')
            buf = slice_from(ex, buf, n)
        raise Unsupported('write_all needed more than 4 rounds')
    if g in ('<[u8] as std::ops::Index>::index', '<[T] as std::ops::Index>::index', 'core::slice::index::<impl std::ops::Index for [T]>::index') and isinstance(deref(a[0]) if isinstance(a[0], Ref) else a[0], ArrSlice):
        s = deref(a[0]) if isinstance(a[0], Ref) else a[0]
        r = a[1]
        start = r.get('start') if 'start' in r.names else 0
        end = r.get('end') if 'end' in r.names else len(s.items)
        if not ex.branch(and_(le(start, end), le(end, len(s.items)))):
            raise Panic('slice index out of range')
        return True, slice_from(ex, slice_to(ex, s, end), start)
    if g in ('core::slice::<impl [u8]>::iter', 'core::slice::<impl [T]>::iter') and isinstance(deref(a[0]) if isinstance(a[0], Ref) else a[0], (ArrSlice, Tuple)):
        s = deref(a[0]) if isinstance(a[0], Ref) else a[0]
        return True, Opaque('arrpositer', items=list(s.items))
    if g == '<std::slice::Iter as std::iter::Iterator>::position' and isinstance(deref(a[0]), Opaque) and deref(a[0]).kind == 'arrpositer':
        it = deref(a[0])
        if len(it.items) > 8:
            # long arrays (108-byte Unix paths): one symbolic index instead of one branch per element.
            # j = least k with pred(item_k), or n if there is none (total and unique definition)
            import models_it
            fake = models_it.SeqIter(None, 0, 0, 'byte', True)
            fn, key = models_it.elem_pred(ex, fake, a[1])
            n = len(it.items)
            j = ex.fresh('apos')
            cs = [j >= 0, j <= n]
            for k, item in enumerate(it.items):
                cs.append(z3.Or(z3.Not(j > k), z3.Not(fn(Z(item)))))
                cs.append(z3.Or(z3.Not(j == k), fn(Z(item))))
            ex.assume(z3.And(cs))
            if ex.branch(j < n):
                return True, Some(j)
            return True, NoneV()
        for k, item in enumerate(it.items):
            r = models.call_closure(ex, a[1], [Ref(Cell(item))])
            if ex.branch(r):
                return True, Some(k)
        return True, NoneV()
    if re.match(r'^<\[u8; \d+\] as std::ops::Index>::index$', g) or (g in ('<[u8] as std::ops::Index>::index', '<[T] as std::ops::Index>::index') and isinstance(deref(a[0]) if isinstance(a[0], Ref) else a[0], Tuple)):
        s = deref(a[0]) if isinstance(a[0], Ref) else a[0]
        r = a[1]
        start = r.get('start') if 'start' in r.names else 0
        end = r.get('end') if 'end' in r.names else len(s.items)
        if isinstance(s, Tuple) and not (is_c(start) and is_c(end)):
            return False, None          # symbolic window of a fixed array: models_v2 (no per-length case split)
        s = ArrSlice(s.items) if isinstance(s, Tuple) else s
        if not ex.branch(and_(le(start, end), le(end, len(s.items)))):
            raise Panic('slice index out of range')
        return True, slice_from(ex, slice_to(ex, s, end), start)
    if g == '<std::io::Error as std::convert::From>::from' and 'ErrorKind' in f:
        return True, Opaque('ioerror', k=a[0])
    if g == 'std::io::Error::new' or g == 'std::io::Error::other':
        return True, Opaque('ioerror', k=a[0])
    if g == '<std::io::ErrorKind as std::convert::Into>::into' or (g.endswith('as std::convert::Into>::into') and 'ErrorKind' in f):
        return True, Opaque('ioerror', k=a[0])
    if g == '<std::vec::Vec as std::default::Default>::default':
        return True, Seg()
    if g == 'std::vec::Vec::with_capacity' or g == 'std::vec::Vec::new':
        return True, Seg()
    if g == 'std::vec::Vec::reserve':
        return True, Tuple([])
    if g in ('std::vec::Vec::as_slice', 'std::vec::Vec::as_mut_slice', '<std::vec::Vec as std::ops::Deref>::deref', '<std::vec::Vec as std::ops::DerefMut>::deref_mut',
             '<std::vec::Vec as std::convert::AsRef>::as_ref', '<std::vec::Vec as std::borrow::Borrow>::borrow') and isinstance(deref(a[0]), Seg):
        return True, VecView(deref(a[0]), 0, None)
    if g == 'std::vec::Vec::len':
        return True, deref(a[0]).length()
    if g == 'std::vec::Vec::is_empty':
        return True, eq(deref(a[0]).length(), 0)
    if g == 'std::vec::Vec::push':
        deref(a[0]).push_bytes([a[1]])
        return True, Tuple([])
    if g == 'std::vec::Vec::extend_from_slice':
        deref(a[0]).push_slice(a[1] if not isinstance(a[1], Ref) else deref(a[1]))
        return True, Tuple([])
    if g == 'std::option::Option::unwrap_or_default' and 'Vec<u8>' in f:
        if a[0].variant == 'Some':
            return True, a[0].fields[0]
        return True, Seg()
    if g == 'std::option::Option::unwrap_or_default' and ('<u16>' in f or '<usize>' in f):
        return True, (a[0].fields[0] if a[0].variant == 'Some' else 0)
    m = re.match(r'^core::num::<impl (\w+)>::to_be_bytes$', g)
    if m:
        ty = m.group(1)
        x = a[0]
        n = INT_BITS[ty] // 8
        if ty.startswith('i'):
            # two's complement: value mod 2^bits
            x = ite(lt(x, 0), add(x, 2 ** INT_BITS[ty]), x) if not is_c(x) else x % (2 ** INT_BITS[ty])
        return True, Tuple(be_bytes(x, n))
    if re.match(r'^std::array::<impl \[u8; \d+\]>::as_slice$', g) or re.match(r'^core::array::<impl \[u8; \d+\]>::as_slice$', g):
        t = deref(a[0])
        return True, ArrSlice(t.items)
    if re.match(r'^std::net::Ipv[46]Addr::octets$', g):
        ip = deref(a[0])
        n = 4 if 'Ipv4' in g else 16
        if isinstance(ip, Opaque) and ip.kind == 'ip' and getattr(ip, 'octs', None):
            return True, Tuple(list(ip.octs))
        raise Unsupported('octets of ' + repr(ip))
    if g == '<u16 as std::convert::TryFrom>::try_from' and 'TryFrom<usize>' in f:
        if ex.branch(le(a[0], 65535)):
            return True, Ok(a[0])
        return True, Err(Opaque('TryFromIntError'))
    if g in ('<std::vec::Vec as std::ops::Index>::index',) and 'RangeFrom' in f:
        v = deref(a[0])
        st = a[1].get('start')
        if not ex.branch(le(st, v.length())):
            raise Panic('range start index out of range for Vec')
        return True, VecView(v, st, None)
    if g in ('<std::vec::Vec as std::ops::IndexMut>::index_mut', '<std::vec::Vec as std::ops::Index>::index') and 'Range<usize>' in f:
        v = deref(a[0])
        st, en = a[1].get('start'), a[1].get('end')
        if not ex.branch(le(st, en)):
            raise Panic('slice index starts after its end')
        if not ex.branch(le(en, v.length())):
            raise Panic('range end index out of range for Vec')
        return True, VecView(v, st, en)
    if g in ('core::slice::<impl [T]>::len', 'core::slice::<impl [u8]>::len'):
        return True, deref_len(a[0])
    if g in ('core::slice::<impl [u8]>::copy_from_slice', 'core::slice::<impl [T]>::copy_from_slice'):
        view, src = a
        if not isinstance(view, VecView):
            return False, None          # array views: models_v2
        if not isinstance(src, ArrSlice):
            raise Unsupported('copy_from_slice operands')
        if not ex.branch(eq(view.len(), len(src.items))):
            raise Panic('copy_from_slice: source slice length does not match destination')
        segs = view.vec.segs
        if not segs or segs[0][0] != 'b' or not isinstance(view.start, int) or not isinstance(view.end, int) or view.end > len(segs[0][1]):
            raise Unsupported('copy_from_slice outside the leading concrete segment')
        segs[0][1][view.start:view.end] = src.items
        return True, Tuple([])
    if g == '<std::borrow::Cow as std::convert::AsRef>::as_ref' or g == '<std::borrow::Cow as std::ops::Deref>::deref':
        c = deref(a[0])
        return True, c.fields[0]
    if g == '<std::borrow::Cow as std::convert::From>::from' or (g.endswith('as std::convert::Into>::into') and 'Cow<' in f):
        return True, Enum(models.COW, 'Borrowed', [a[0]])
    if g == 'v2::model::TypeLengthValues::as_bytes':
        return False, None
    if g.endswith('as std::iter::IntoIterator>::into_iter') and ('[' in f):
        t = a[0]
        items = t.items if isinstance(t, (Tuple, ArrSlice)) else None
        if items is None:
            raise Unsupported('into_iter of ' + repr(t))
        return True, Opaque('arriter', items=list(items), pos=0)
    if g.endswith('as std::iter::Iterator>::size_hint') and isinstance(deref(a[0]), Opaque) and deref(a[0]).kind == 'arriter':
        it = deref(a[0])
        n = len(it.items) - it.pos
        return True, Tuple([n, Some(n)])
    if g.endswith('as std::iter::ExactSizeIterator>::len') and isinstance(deref(a[0]), Opaque) and deref(a[0]).kind == 'arriter':
        it = deref(a[0])
        return True, len(it.items) - it.pos
    if g.endswith('as std::iter::Iterator>::next') and isinstance(deref(a[0]), Opaque) and deref(a[0]).kind == 'arriter':
        it = deref(a[0])
        if it.pos < len(it.items):
            it.pos += 1
            return True, Some(it.items[it.pos - 1])
        return True, NoneV()
    return False, None


def deref_len(x):
    x = deref(x) if isinstance(x, Ref) else x
    if isinstance(x, Tuple):
        return len(x.items)
    return x.len()
