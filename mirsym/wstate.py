"""per-process worker state for Engine M (summaries are rebuilt in every worker by replaying scripts)"""
import time, traceback
import models
import v1sum
from core import Unsupported

_W = {}


def w_init(lmax_by_kind, scripts_by_kind, known_roles):
    _W['prog'] = v1sum.program(refresh=False)
    _W['lmax'] = lmax_by_kind
    _W['scripts'] = scripts_by_kind
    _W['sum'] = {}
    _W['roles'] = known_roles


def w_summary(kind, suffix='', share=None):
    key = (kind, suffix)
    if key not in _W['sum']:
        ctx = models.InputCtx(_W['lmax'][kind], suffix=suffix, share=share)
        paths = v1sum.summarize(_W['prog'], kind, ctx, scripts=_W['scripts'][kind])
        import props_v1
        props_v1.annotate(_W['prog'], kind, paths, ctx)
        _W['sum'][key] = (ctx, paths)
    return _W['sum'][key]


def w_task(task):
    name, kind, idx, params = task
    t0 = time.time()
    if params and 'cross_mod' in params:
        import os
        os.environ['VERIF_M_CROSS_MOD'] = str(params['cross_mod'])
    try:
        import props_v1
        fn = getattr(props_v1, 'ob_' + name)
        res = fn(_W, kind, idx, params)
    except Unsupported as e:
        res = [{'label': name, 'status': 'unsupported', 'detail': str(e)}]
    except Exception:
        res = [{'label': name, 'status': 'error', 'detail': traceback.format_exc()[-1500:]}]
    for r in res:
        r.setdefault('task', [name, kind, idx])
    return res, time.time() - t0


