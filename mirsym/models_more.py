"""Further std models for edited parser code (Engine M): collecting field iterators into a Vec<&str>, Vec / slice
accessors on such a vector, `str::lines`, `nth` / `count` / `last` on the split iterators. Same status as the other
std models: transcriptions of the documented behaviour, exercised by the per-path native validation."""
import re
import z3
from core import *
import models
from models import Some, NoneV, Ok, Err, ctx_of, byte_at, find_first

MAX_ITEMS = 24


class VecStr:
    """Vec<&str> / Vec<&[u8]> with a concrete number of items on each path"""
    kind = 'vecstr'

    def __init__(self, items):
        self.items = list(items)

    def len(self):
        return len(self.items)

    def index_val(self, i):
        if isinstance(i, int):
            return self.items[i]
        raise Unsupported('symbolic index into a collected vector')


def _v(x):
    return deref(x) if isinstance(x, Ref) else x


def lines_next(ex, it):
    s = it.s
    if not ex.branch(lt(it.pos, s.end)):
        return NoneV()
    found, j = find_first(ex, Str(s.buf, it.pos, s.end, s.is_str), it.pos, 'eq10', lambda b: b == 10)
    if not found:
        r = Str(s.buf, it.pos, s.end, True)
        it.pos = s.end
        return Some(r)
    start = it.pos
    it.pos = add(j, 1)
    # one trailing '\r' before the '\n' is removed
    if ex.branch(and_(gt(j, start), eq(s.buf.at(sub(j, 1)), 13))):
        return Some(Str(s.buf, start, sub(j, 1), True))
    return Some(Str(s.buf, start, j, True))


def generic_next(ex, it):
    it = _v(it)
    if getattr(it, 'kind', None) == 'lines':
        return lines_next(ex, it)
    return models.iter_next(ex, it)


def _call_item(ex, fn, args):
    if isinstance(fn, FnItem):
        return ex.dispatch(ex, fn.name, args, {'generics': {}, 'fn': None, 'locals': {}})
    raise Unsupported('callable ' + repr(fn))


def hook(ex, func, argv, frame):
    f = func
    g = strip_generics(f)
    a = argv
    # ---- Option / Result combinators (definitional)
    mo = re.match(r'^std::(option::Option|result::Result)::(\w+)$', g)
    if mo:
        isopt = mo.group(1).startswith('option')
        meth = mo.group(2)
        v = a[0]
        byref = isinstance(v, Ref)
        vv = _v(v)
        if isinstance(vv, Enum) and vv.variant in ('Some', 'None', 'Ok', 'Err'):
            good = vv.variant in ('Some', 'Ok')
            inner = vv.fields[0] if vv.fields else None
            call = lambda fn, args: models.call_closure(ex, fn, args) if isinstance(fn, Closure) else _call_item(ex, fn, args)
            if meth in ('copied', 'cloned') and isopt:
                return True, (Some(_v(inner)) if good else NoneV())
            if meth == 'ok' and not isopt:
                return True, (Some(inner) if good else NoneV())
            if meth == 'err' and not isopt:
                return True, (NoneV() if good else Some(inner))
            if meth == 'as_ref' or meth == 'as_mut' or meth == 'as_deref':
                if not good:
                    return True, (NoneV() if isopt else Err(Ref(Cell(inner))))
                return True, (Some(Ref(Cell(inner))) if isopt else Ok(Ref(Cell(inner))))
            if meth == 'unwrap_or' and not isopt:
                return True, (inner if good else a[1])
            if meth == 'unwrap_or_else':
                return True, (inner if good else call(a[1], [] if isopt else [inner]))
            if meth == 'unwrap_or_default':
                if good:
                    return True, inner
                t = f[f.index('<') + 1:]
                if t.startswith('&str') or t.startswith("&'") and 'str' in t[:14]:
                    return True, Str(Buf('lit', data=b''), 0, 0)
                if re.match(r'^(u8|u16|u32|u64|usize|i32|i64)', t):
                    return True, 0
                if t.startswith('bool'):
                    return True, False
                return False, None
            if meth == 'map':
                if isopt:
                    return True, (Some(call(a[1], [inner])) if good else NoneV())
                return True, (Ok(call(a[1], [inner])) if good else vv)
            if meth == 'map_err' and not isopt:
                if good:
                    return True, vv
                fn = a[1]
                if isinstance(fn, FnItem) and re.match(r'^.*::\w+$', strip_generics(fn.name)) and not strip_generics(fn.name).startswith('<'):
                    return False, None        # enum-variant constructor used as a function: models.dispatch builds the variant
                return True, Err(call(fn, [inner]))
            if meth == 'map_or' and isopt:
                return True, (call(a[2], [inner]) if good else a[1])
            if meth == 'filter' and isopt:
                if good and ex.branch(call(a[1], [Ref(Cell(inner))])):
                    return True, vv
                return True, NoneV()
            if meth == 'and_then':
                return True, (call(a[1], [inner]) if good else (NoneV() if isopt else vv))
            if meth == 'or_else':
                return True, (vv if good else call(a[1], [] if isopt else [inner]))
            if meth == 'or' and isopt:
                return True, (vv if good else a[1])
            if meth == 'and' and isopt:
                return True, (a[1] if good else NoneV())
            if meth == 'ok_or_else' and isopt:
                return True, (Ok(inner) if good else Err(call(a[1], [])))
            if meth == 'map_or_else':
                return True, (call(a[2], [inner]) if good else call(a[1], [] if isopt else [inner]))
            if meth == 'map_or' and not isopt:
                return True, (call(a[2], [inner]) if good else a[1])
            if meth in ('is_ok_and', 'is_some_and'):
                return True, (call(a[1], [inner]) if good else False)
            if meth == 'is_none_or':
                return True, (call(a[1], [inner]) if good else True)
            if meth == 'zip' and isopt:
                o = _v(a[1])
                return True, (Some(Tuple([inner, o.fields[0]])) if good and o.variant == 'Some' else NoneV())
            if meth == 'flatten' and isopt:
                return True, (inner if good else NoneV())
            if meth in ('unwrap', 'expect'):
                if good:
                    return True, inner
                raise Panic('called unwrap on a None / Err value')
            if meth in ('unwrap_err', 'expect_err') and not isopt:
                if not good:
                    return True, inner
                raise Panic('called unwrap_err on an Ok value')
            if meth == 'unwrap_unchecked':
                return True, inner
    if g == 'std::num::ParseIntError::kind':
        e_ = _v(a[0])
        return True, Ref(Cell(Enum('std::num::IntErrorKind', e_.ekind, [])))
    if g in ('core::str::<impl str>::ends_with',) and f.endswith('::<char>'):
        s = _v(a[0])
        if not isinstance(a[1], int) or a[1] >= 128:
            raise Unsupported('ends_with non-ASCII char')
        return True, and_(gt(s.len(), 0), eq(s.buf.at(sub(s.end, 1)), a[1]))
    # ---- chunks_exact over a byte slice
    if g in ('core::slice::<impl [u8]>::chunks_exact', 'core::slice::<impl [T]>::chunks_exact', 'core::slice::<impl [u8]>::chunks', 'core::slice::<impl [T]>::chunks'):
        sl = _v(a[0])
        import models_v2
        sl = models_v2.as_slice(sl)
        n = a[1]
        if not (isinstance(sl, Str) and isinstance(n, int) and n > 0):
            raise Unsupported('chunks on ' + repr(sl))
        return True, Opaque('chunks', s=sl, pos=sl.start, n=n, exact=g.endswith('chunks_exact'))
    if getattr(_v(a[0]) if a else None, 'kind', None) == 'chunks':
        it = _v(a[0])
        if g.endswith('::remainder'):
            ln = it.s.len()
            rem = ln % it.n if isinstance(ln, int) else Z(ln) % it.n
            return True, Str(it.s.buf, sub(it.s.end, rem), it.s.end, False)
        mt2 = re.match(r'^<.* as std::iter::Iterator>::(\w+)$', g)
        if mt2 and mt2.group(1) == 'next':
            if ex.branch(le(add(it.pos, it.n), it.s.end)):
                r = Str(it.s.buf, it.pos, add(it.pos, it.n), False)
                it.pos = add(it.pos, it.n)
                return True, Some(r)
            if not it.exact and ex.branch(lt(it.pos, it.s.end)):
                r = Str(it.s.buf, it.pos, it.s.end, False)
                it.pos = it.s.end
                return True, Some(r)
            return True, NoneV()
        if mt2 and mt2.group(1) == 'by_ref':
            return True, a[0]
        raise Unsupported('chunks iterator method ' + g)
    if g == 'core::str::<impl str>::lines':
        s = _v(a[0])
        if ctx_of(ex, s) is None:
            raise Unsupported('lines on a non-input buffer')
        return True, Opaque('lines', s=s, pos=s.start)
    first = _v(a[0]) if a else None
    kind = getattr(first, 'kind', None)
    mt = re.match(r'^<.* as std::iter::(?:Iterator|DoubleEndedIterator)>::(\w+)$', g) or re.match(r'^std::iter::(?:Iterator|DoubleEndedIterator)::(\w+)$', g)
    if mt and kind in ('splitn', 'splitstr', 'lines', 'peekable'):
        meth = mt.group(1)
        if meth == 'next' and kind == 'lines':
            return True, lines_next(ex, first)
        if meth == 'nth':
            n = a[1]
            if not isinstance(n, int) or n > MAX_ITEMS:
                raise Unsupported('nth with a symbolic / large index')
            for _ in range(n):
                r = generic_next(ex, first)
                if r.variant == 'None':
                    return True, r
            return True, generic_next(ex, first)
        if meth in ('count', 'last', 'collect'):
            items = []
            for _ in range(MAX_ITEMS + 1):
                r = generic_next(ex, first)
                if r.variant == 'None':
                    break
                items.append(r.fields[0])
            else:
                raise Unsupported('more than %d items from a field iterator' % MAX_ITEMS)
            if meth == 'count':
                return True, len(items)
            if meth == 'last':
                return True, (Some(items[-1]) if items else NoneV())
            if 'Vec<' in f or 'std::vec::Vec' in f:
                return True, VecStr(items)
            raise Unsupported('collect into ' + f)
        if meth == 'peekable' and kind == 'lines':
            return True, Opaque('peekable', inner=first, peeked=None)
        return False, None
    if kind == 'vecstr':
        v = first
        if g in ('std::vec::Vec::len',):
            return True, len(v.items)
        if g in ('std::vec::Vec::is_empty',):
            return True, len(v.items) == 0
        if g in ('<std::vec::Vec as std::ops::Deref>::deref', 'std::vec::Vec::as_slice', '<std::vec::Vec as std::convert::AsRef>::as_ref', '<std::vec::Vec as std::borrow::Borrow>::borrow'):
            return True, ArrSlice(v.items)
        if g == '<std::vec::Vec as std::ops::Index>::index' and f.endswith('<usize>>::index'):
            i = a[1]
            if not isinstance(i, int):
                raise Unsupported('symbolic index into a collected vector')
            if i >= len(v.items):
                raise Panic('index out of bounds: the len is %d but the index is %d' % (len(v.items), i))
            return True, Ref(Cell(v.items[i]))
        if g == 'std::vec::Vec::iter' or g.endswith('as std::iter::IntoIterator>::into_iter'):
            return True, Opaque('arriter', items=[Ref(Cell(x)) for x in v.items] if g == 'std::vec::Vec::iter' else list(v.items), pos=0)
    if isinstance(first, ArrSlice) and first.items and isinstance(first.items[0], Str):
        v = first
        g = re.sub(r'<impl \[[^\]]*\]>', '<impl [T]>', g)
        if g in ('core::slice::<impl [T]>::len',):
            return True, len(v.items)
        if g in ('core::slice::<impl [T]>::is_empty',):
            return True, len(v.items) == 0
        if g in ('core::slice::<impl [T]>::first', 'core::slice::<impl [T]>::last'):
            if not v.items:
                return True, NoneV()
            return True, Some(Ref(Cell(v.items[0 if g.endswith('first') else -1])))
        if g == 'core::slice::<impl [T]>::get' and f.endswith('::<usize>'):
            i = a[1]
            if not isinstance(i, int):
                raise Unsupported('symbolic index into a collected vector')
            return True, (Some(Ref(Cell(v.items[i]))) if i < len(v.items) else NoneV())
        if g == 'core::slice::<impl [T]>::iter':
            return True, Opaque('arriter', items=[Ref(Cell(x)) for x in v.items], pos=0)
    return False, None
