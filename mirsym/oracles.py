"""Declarative oracles for the v1 properties, written from the property texts (not from the
implementation). All are formulas over an InputCtx (S, L) plus oracle-owned fresh variables that
are *totally and uniquely defined* by their defining constraints, so that both G and not-G can
be used under the definitions."""
import z3
from core import *
import models

SP, CR, LF = 32, 13, 10


class Oracle:
    def __init__(self, ctx, tag='o'):
        self.ctx = ctx
        self.tag = tag + ctx.suffix
        c = ctx
        S, L = c.S, c.L
        self.defs = []
        # ---- first CR
        self.hascr = z3.Bool('hascr_' + self.tag)
        self.c = z3.Int('cr_' + self.tag)
        nocr = lambda lo, hi: c.forall_range(lo, hi, 'o_notcr', lambda b: b != CR)
        self.defs.append(z3.If(self.hascr,
                               z3.And(self.c >= 0, self.c < L, S(self.c) == CR, nocr(0, self.c)),
                               z3.And(self.c == L, nocr(0, L))))
        self._tcp = {}

    def lit(self, pos, text):
        return z3.And([self.ctx.S(pos + i) == b for i, b in enumerate(text)])

    # ---- line termination: first CR immediately followed by LF, whole line <= 107 bytes
    def terminated(self):
        c = self.ctx
        return z3.And(self.hascr, self.c + 1 < c.L, c.S(self.c + 1) == LF, self.c + 2 <= 107)

    def unknown_line(self):
        c = self.ctx
        return z3.And(self.c >= 13, self.lit(0, b'PROXY UNKNOWN'), z3.Or(self.c == 13, c.S(13) == SP))

    def tcp_fields(self):
        """field boundaries of `PROXY TCPx f1 f2 f3 f4` (defined totally: e_i = first SP at or after
        the field start, or the CR position if there is none)"""
        if self._tcp:
            return self._tcp
        c = self.ctx
        nosp = lambda lo, hi: c.forall_range(lo, hi, 'o_notsp', lambda b: b != SP)
        es = []
        start = 11
        for i in range(3):
            e = z3.Int('e%d_%s' % (i + 1, self.tag))
            st = start
            self.defs.append(z3.If(Z(st) >= self.c, e == self.c,
                                   z3.And(Z(st) <= e, e <= self.c, nosp(st, e), z3.Or(e == self.c, c.S(e) == SP))))
            es.append((st, e))
            start = e + 1
        # last field runs to the CR and must not contain SP
        es.append((start, self.c))
        self._tcp = {'f': es, 'last_nosp': nosp(start, self.c)}
        return self._tcp

    def port_ok(self, a, b):
        """plain decimal 0..65535, no sign, no leading zero: `0` | [1-9][0-9]{0,4} with value <= 65535"""
        c = self.ctx
        n = b - a
        digits = c.forall_range(a, b, 'o_digit', lambda x: z3.And(x >= 48, x <= 57))
        return z3.And(n >= 1, n <= 5, digits, z3.Or(n == 1, c.S(a) != 48), self.port_val(a, b) <= 65535)

    def port_val(self, a, b):
        """decimal value of S[a..b) for b - a <= 5 (digit sum by place value)"""
        c = self.ctx
        n = b - a
        total = z3.IntVal(0)
        for k in range(5):
            # digit k counted from the right end: position b-1-k, weight 10^k
            total = total + z3.If(n > k, (c.S(b - 1 - k) - 48) * (10 ** k), 0)
        return total

    def tcp_line(self, fam):
        c = self.ctx
        t = self.tcp_fields()
        (a1, b1), (a2, b2), (a3, b3), (a4, b4) = t['f']
        ok = c.ok4 if fam == 4 else c.ok6
        kw = b'PROXY TCP4 ' if fam == 4 else b'PROXY TCP6 '
        return z3.And(self.c >= 11, self.lit(0, kw),
                      b1 < self.c, b2 < self.c, b3 < self.c,          # three separating spaces exist
                      b1 > a1, b2 > a2, b3 > a3, b4 > a4,              # non-empty fields (exactly one space each)
                      t['last_nosp'],
                      ok(Z(a1), Z(b1)), ok(Z(a2), Z(b2)),
                      models.addr_contract(c, fam, a1, b1), models.addr_contract(c, fam, a2, b2),
                      self.port_ok(a3, b3), self.port_ok(a4, b4))

    def wellformed(self, byte_entry=False):
        """G(S, L): the input starts with a well-formed v1 line"""
        body = z3.Or(self.unknown_line(), self.tcp_line(4), self.tcp_line(6))
        g = z3.And(self.terminated(), body)
        if byte_entry:
            g = z3.And(g, self.ctx.valid_utf8_prefix(self.c + 2))
        return g

    def prefix_of_line_seen(self):
        """C18 precondition: first CR followed by at least one more byte, or 107 bytes without CR"""
        c = self.ctx
        return z3.Or(z3.And(self.hascr, self.c + 1 < c.L), z3.And(z3.Not(self.hascr), c.L >= 107))


class OracleG(Oracle):
    """General-position variant for C12: the keyword token [0, e0) and the protocol token [e0+1, pe) have
    symbolic ends (first SP-or-CR), so that a corrupted keyword / protocol of any length can be expressed."""

    def __init__(self, ctx, tag='g'):
        Oracle.__init__(self, ctx, tag)
        c = ctx
        nosep = lambda lo, hi: c.forall_range(lo, hi, 'o_notsep', lambda b: z3.And(b != SP, b != CR))
        self.e0 = z3.Int('e0_' + self.tag)
        self.defs.append(z3.And(self.e0 >= 0, self.e0 <= self.c, nosep(0, self.e0), z3.Or(self.e0 == self.c, c.S(self.e0) == SP)))
        self.pe = z3.Int('pe_' + self.tag)
        st = self.e0 + 1
        self.defs.append(z3.If(st >= self.c, self.pe == self.c,
                               z3.And(st <= self.pe, self.pe <= self.c, nosep(st, self.pe), z3.Or(self.pe == self.c, c.S(self.pe) == SP))))
        self._g = None

    def tok_is(self, lo, hi, text):
        return z3.And(hi - lo == len(text), *[self.ctx.S(lo + i) == b for i, b in enumerate(text)])

    def gfields(self):
        if self._g:
            return self._g
        c = self.ctx
        nosp = lambda lo, hi: c.forall_range(lo, hi, 'o_notsp', lambda b: b != SP)
        es = []
        start = self.pe + 1
        for i in range(3):
            e = z3.Int('ge%d_%s' % (i + 1, self.tag))
            st = start
            self.defs.append(z3.If(st >= self.c, e == self.c,
                                   z3.And(st <= e, e <= self.c, nosp(st, e), z3.Or(e == self.c, c.S(e) == SP))))
            es.append((st, e))
            start = e + 1
        es.append((start, self.c))
        self._g = {'f': es, 'last_nosp': nosp(start, self.c)}
        return self._g

    def shape4(self):
        """exactly four single-space separated, SP-free, possibly empty fields after the protocol token"""
        t = self.gfields()
        (a1, b1), (a2, b2), (a3, b3), (a4, b4) = t['f']
        return z3.And(self.pe < self.c, b1 < self.c, b2 < self.c, b3 < self.c, t['last_nosp'])

    def kw_ok(self):
        return self.tok_is(0, self.e0, b'PROXY')

    def proto_is(self, text):
        return z3.And(self.e0 < self.c, self.tok_is(self.e0 + 1, self.pe, text))

    def addr_ok(self, fam, i):
        a, b = self.gfields()['f'][i]
        ok = self.ctx.ok4 if fam == 4 else self.ctx.ok6
        return z3.And(ok(Z(a), Z(b)), models.addr_contract(self.ctx, fam, a, b))

    def addr_bad(self, fam, i):
        a, b = self.gfields()['f'][i]
        ok = self.ctx.ok4 if fam == 4 else self.ctx.ok6
        return z3.Not(ok(Z(a), Z(b)))

    def port_good(self, i):
        a, b = self.gfields()['f'][i]
        return self.port_ok(a, b)

    def terminated_any_len(self):
        c = self.ctx
        return z3.And(self.hascr, self.c + 1 < c.L, c.S(self.c + 1) == LF)
