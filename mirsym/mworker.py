"""Engine M driver: mworker.py <PID> <tier> <seed> <out.json> [only]

Regenerates the MIR dump of /repo, discovers the feasible paths of the entry points the property
needs (parallel, cached by MIR hash), validates the encoding against the natively compiled crate
on one witness per path plus the literals of the repo's own tests, discharges the property's
obligations in a process pool, replays counterexamples natively, and writes the result dict.
"""
import json, os, re, subprocess, sys, time, random, traceback, hashlib
import multiprocessing as mp
import concurrent.futures as cf

HERE = os.path.dirname(os.path.abspath(__file__))
VERIF = os.path.dirname(HERE)
sys.path.insert(0, HERE)

import z3
from core import *
import models
import v1sum
import oracles
import props_v1

from natrun import native, build_replay, REPLAY_BIN
from wstate import w_init, w_summary, w_task, _W


# ------------------------------------------------------------------ master side
def main():
    pid, tier, seed, out = sys.argv[1], sys.argv[2], int(sys.argv[3]), sys.argv[4]
    if tier == 'thorough':
        os.environ.setdefault('VERIF_M_CROSS', '1')
        # the relational queries of the longest TCP6 lines at LMAX = 112 need minutes on a loaded machine
        os.environ.setdefault('VERIF_M_QUERY_TIMEOUT_MS', '1500000')
    only = set(sys.argv[5].split(',')) if len(sys.argv) > 5 else None
    t_start = time.time()
    res = {'engine': 'M: mirsym (MIR->SMT symbolic executor, /verif/mirsym) over `rustc +nightly -Zunpretty=mir` of /repo; z3 %s' % z3.get_version_string(),
           'rule': 'Engine M: one evaluation = one SMT query (path-feasibility query during exploration, or one property obligation '
                   '`axioms & path condition & negated property` that must be unsat); one distinct non-trivial case = one feasible '
                   'execution path of an entry point (disjoint path conditions), each confirmed reachable by the solver and by a native witness run',
           'queries': 0, 'distinct': 0, 'solver_s': 0.0, 'samples': [], 'functions': [], 'bounds': [], 'models': [],
           'obligations': [], 'violations': [], 'inconclusive': [], 'known': [], 'assumptions': [], 'validated': 0}
    try:
        drive(pid, tier, seed, only, res)
    except Unsupported as e:
        res['inconclusive'].append('Engine M: unsupported / failed validation: %s' % e)
    except Exception:
        res['inconclusive'].append('Engine M: internal error: ' + traceback.format_exc()[-2000:])
    res['solver_s'] = round(res['solver_s'], 2)
    res['wall_s'] = round(time.time() - t_start, 1)
    json.dump(res, open(out, 'w'))


def drive(pid, tier, seed, only, res):
    spec = props_v1.SPECS[pid]
    rnd = random.Random(seed)
    prog = v1sum.program(refresh=True)
    build_replay()
    kinds = list(spec['kinds'])
    lmax = {k: spec['lmax'][tier] for k in kinds}
    obligations = list(spec['obligations'])
    quick_extra = spec.get('quick_extra') if tier == 'quick' else None
    if quick_extra:
        for k in quick_extra['kinds']:
            if k not in kinds:
                kinds.append(k)
                lmax[k] = quick_extra['lmax']
        obligations += quick_extra['obligations']
    extra = spec.get('thorough_extra') if tier == 'thorough' else None
    if extra:
        for k in extra['kinds']:
            if k not in kinds:
                kinds.append(k)
                lmax[k] = extra['lmax']
        obligations += extra['obligations']
    if os.environ.get('VERIF_LMAX'):
        lmax = {k: int(os.environ['VERIF_LMAX']) for k in kinds}
    scripts = {}
    for k in kinds:
        st = {}
        scripts[k] = v1sum.discover_scripts(prog, k, lmax[k], stats=st)
        res['queries'] += st.get('feasibility_queries', 0)
        res['solver_s'] += st.get('explore_solver_s', 0.0)
        print('[M] %-18s LMAX=%d: %d feasible paths (%s, %d feasibility queries, %.0fs solver)' % (
            k, lmax[k], len(scripts[k]), 'cached by MIR hash' if st.get('cached') else 'explored in %.0fs' % st.get('explore_wall_s', 0),
            st.get('feasibility_queries', 0), st.get('explore_solver_s', 0.0)), flush=True)
        res['distinct'] += len(scripts[k])
        res['bounds'].append('entry %s: every input of at most LMAX=%d bytes (full byte alphabet%s); %d feasible paths' % (
            k, lmax[k], '' if v1sum.base(k) == 'bytes' else ', constrained to valid UTF-8 as the &str type guarantees', len(scripts[k])))
    res['functions'] = props_v1.functions_encoded(prog, kinds)
    res['models'] = props_v1.MODEL_LIST
    res['assumptions'] = props_v1.ASSUMPTIONS

    known = props_v1.open_roles(pid)
    # master copy of the summaries (for validation and task generation)
    w_init(lmax, scripts, known)
    summaries = {k: w_summary(k) for k in kinds}

    jobs = int(os.environ.get('VERIF_M_JOBS', '14'))
    pool = cf.ProcessPoolExecutor(max_workers=jobs, mp_context=mp.get_context('spawn'), initializer=w_init, initargs=(lmax, scripts, known))
    try:
        drive2(pid, tier, seed, only, res, spec, rnd, prog, kinds, lmax, scripts, known, summaries, pool, obligations)
    finally:
        pool.shutdown(wait=False, cancel_futures=True)


def drive2(pid, tier, seed, only, res, spec, rnd, prog, kinds, lmax, scripts, known, summaries, pool, obligations):
    # ---- 3.4 validation of the encoding against the native crate
    nval = validate(prog, kinds, summaries, res, rnd, pool)
    res['validated'] = nval

    if os.environ.get('VERIF_M_WARM'):
        return        # setup.sh: only fill the per-MIR-hash exploration / validation caches
    results = []
    # ---- modular obligations (run in this process)
    mods = spec.get('modular')
    if tier == 'thorough' and spec.get('modular_thorough'):
        mods = spec['modular_thorough']
    if isinstance(mods, str):
        mods = [mods]
    for mod in (mods or []):
        t0 = time.time()
        lm = max(list(lmax.values()) + [spec['lmax'][tier]])
        ret = getattr(props_v1, mod)(prog, lm)
        na, nb, recs = ret[0], ret[1], ret[2]
        meta = ret[3] if len(ret) > 3 else props_v1.MODULAR_META.get(mod, {})
        results += recs
        print('[M] %s: %d + %d paths, %d queries in %.0fs' % (mod, na, nb, len(recs), time.time() - t0), flush=True)
        for b in meta.get('bounds', []):
            res['bounds'].append(b.replace('{LMAX}', str(lm)))
        for f in meta.get('functions', []):
            if f not in res['functions']:
                res['functions'].append(f)
        for m_ in meta.get('models', []):
            if m_ not in res['models']:
                res['models'] = list(res['models']) + [m_]
        res['validated'] = res.get('validated', 0) + meta.get('validated', 0)
        res['distinct'] += na + nb

    # ---- obligations
    tasks = []
    for obname, okinds in obligations:
        for k in okinds:
            ctx, paths = summaries[k]
            for p in paths:
                if props_v1.relevant(obname, p):
                    tasks.append((obname, k, p.idx, {}))
    if only:
        sel = {o[2:] for o in only if o.startswith('M:')}
        if sel:
            tasks = [t for t in tasks if t[0] in sel]
    rnd.shuffle(tasks)
    if len(tasks) > 1500:
        mod = max(1, len(tasks) // 150)
        tasks = [(t[0], t[1], t[2], dict(t[3], cross_mod=mod)) for t in tasks]
    t0 = time.time()
    for rs, dt in pool.map(w_task, tasks, chunksize=4):
        results += rs
    print('[M] %d obligation tasks -> %d queries in %.0fs wall' % (len(tasks), len(results), time.time() - t0), flush=True)

    # ---- collect
    by_ob = {}
    wit = {}
    for r in results:
        if r['status'] in ('wit_ok', 'wit_fail'):
            res['queries'] += 1
            res['solver_s'] += r.get('solver_s', 0.0)
            g = wit.setdefault(r['witness_group'], {'ok': 0, 'fail': 0, 'input': None})
            if r['status'] == 'wit_ok':
                g['ok'] += 1
                g['input'] = g['input'] or r.get('input')
            else:
                g['fail'] += 1
            continue
        o = by_ob.setdefault(r['task'][0], {'engine': 'M', 'obligation': r['task'][0], 'queries': 0, 'unsat': 0, 'sat': 0, 'solver_s': 0.0, 'status': 'pass'})
        o['queries'] += 1
        o['solver_s'] += r.get('solver_s', 0.0)
        res['queries'] += 1
        res['solver_s'] += r.get('solver_s', 0.0)
        if r['status'] == 'unsat':
            o['unsat'] += 1
        elif r['status'] == 'sat':
            o['sat'] += 1
        else:
            o['status'] = 'inconclusive'
            res['inconclusive'].append('obligation %s on %s path %s: %s %s' % (r['label'], r['task'][1], r['task'][2], r['status'], r.get('detail', '')[:300]))
    # second-solver cross-check (thorough tier)
    cc = [r.get('cross') for r in results if r.get('cross')]
    if cc:
        res['cross_check'] = {'solver': '/usr/bin/z3 4.8.12 (SMT-LIB2 text of the same query)', 'queries': len(cc), 'agree': cc.count('agree'),
                              'disagree': cc.count('disagree'), 'inconclusive': cc.count('inconclusive')}
        if cc.count('disagree'):
            res['inconclusive'].append('second solver disagrees on %d queries' % cc.count('disagree'))
    # vacuity guard: every witness group must be inhabited
    res['vacuity_witnesses'] = []
    for gname, g in sorted(wit.items()):
        res['vacuity_witnesses'].append({'class': gname, 'satisfied_on_paths': g['ok'], 'example_input': g['input']})
        if g['ok'] == 0:
            res['inconclusive'].append('vacuity guard: no path witnesses `%s`' % gname)
    # replay sat results
    sat = [r for r in results if r['status'] == 'sat']
    results = [r for r in results if r['status'] not in ('wit_ok', 'wit_fail')]
    handle_counterexamples(pid, sat, res, by_ob)
    for o in by_ob.values():
        o['solver_s'] = round(o['solver_s'], 2)
        o['bound'] = '; '.join(res['bounds'])
        res['obligations'].append(o)
    for k in kinds:
        ctx, paths = summaries[k]
        for p in paths[:3]:
            if p.witness is not None:
                res['samples'].append({'engine': 'M', 'entry': k, 'path': p.idx, 'outcome': p.label(), 'witness_input': repr(p.witness)})


def validate(prog, kinds, summaries, res, rnd, pool):
    """(a) one witness per feasible path, (b) the string literals of the repo's own v1 tests and doc
    examples (+ a few extra shapes): the outcome predicted by the encoding must equal what the native crate
    does, in the dev and the release build. Cached per (MIR hash, model sources, entry, LMAX): the same tree
    and the same models give the same answer."""
    n = 0
    entry_of = props_v1.ENTRY_OF
    lits = props_v1.test_literals(prog)
    for k in kinds:
        ctx, paths = summaries[k]
        key = hashlib.sha256(('val|%s|%s|%s|%d|%s' % (prog.mir_sha, v1sum.model_version(), v1sum.base(k), ctx.lmax, props_v1.RENDER_VERSION)).encode()).hexdigest()[:32]
        cpath = os.path.join(v1sum.CACHE, 'validated-%s.json' % key)
        if os.path.exists(cpath):
            d = json.load(open(cpath))
            for p, w in zip(paths, d['witnesses']):
                p.witness = bytes.fromhex(w) if w is not None else None
            n += d['n']
            print('[M] validation %s: %d native comparisons (cached for this MIR hash)' % (k, d['n']), flush=True)
            continue
        todo = [l for l in lits if len(l) <= ctx.lmax and (v1sum.base(k) == 'bytes' or is_utf8(l))] if k != 'str_views' else []
        tasks = [('val_witness', k, p.idx, {}) for p in paths] + [('val_literal', k, -1, {'lit': l.hex()}) for l in todo]
        out = []
        for rs, dt in pool.map(w_task, tasks, chunksize=2):
            out += rs
        reqs = []
        for r in out:
            if r['status'] == 'error':
                raise Unsupported(r['detail'])
            if r['status'] == 'unsupported':
                raise Unsupported(r.get('detail', ''))
            if r['status'] == 'ok':
                reqs.append(r)
                if r['task'][0] == 'val_witness':
                    paths[r['task'][2]].witness = bytes.fromhex(r['witness'])
        cnt = 0
        for prof in ('dev', 'release'):
            lines = native([(entry_of[k], bytes.fromhex(r['witness'])) for r in reqs], prof)
            for r, line in zip(reqs, lines):
                if not props_v1.same_outcome(r['want'], line):
                    raise Unsupported('encoding disagrees with the native crate (%s build) on entry %s, input %r: the encoding predicts `%s`, the real code gives `%s`'
                                      % (prof, k, bytes.fromhex(r['witness']), r['want'], line))
                cnt += 1
        n += cnt
        os.makedirs(v1sum.CACHE, exist_ok=True)
        json.dump({'n': cnt, 'witnesses': [p.witness.hex() if p.witness is not None else None for p in paths]}, open(cpath, 'w'))
        print('[M] validation %s: %d path witnesses + %d literals, each in 2 build profiles, agree with the native crate' % (
            k, sum(1 for r in reqs if r['task'][0] == 'val_witness'), len(todo)), flush=True)
    return n


def is_utf8(b):
    try:
        b.decode('utf-8')
        return True
    except UnicodeDecodeError:
        return False


def handle_counterexamples(pid, sat, res, by_ob):
    if not sat:
        return
    os.makedirs(os.path.join(VERIF, 'replays', pid), exist_ok=True)
    seen_known = set()
    nviol = 0
    for r in sat:
        role = r.get('role')
        cex = r.get('cex')
        if cex is None:
            res['inconclusive'].append('obligation %s: sat but no realisable counterexample (%s)' % (r['label'], r.get('detail', '')))
            by_ob[r['task'][0]]['status'] = 'inconclusive'
            continue
        ok, note = props_v1.replay_cex(cex, native)
        if role:
            # a listed known finding: report once per role if it still reproduces
            if ok and role not in seen_known:
                seen_known.add(role)
                res['known'].append('%s [%s] e.g. %s' % (props_v1.role_description(pid, role), role, cex.get('summary', '')))
            elif ok is None:
                res['inconclusive'].append('known-finding witness for role %s could not be replayed: %s' % (role, note))
            continue
        if ok:
            by_ob[r['task'][0]]['status'] = 'violated'
            nviol += 1
            if nviol <= 12:
                h = hashlib.sha256(json.dumps(cex, sort_keys=True).encode()).hexdigest()[:10]
                path = os.path.join(VERIF, 'replays', pid, '%s-%s.json' % (re.sub(r'[^A-Za-z0-9_.-]+', '_', r['label']).strip('_'), h))
                json.dump(cex, open(path, 'w'), indent=1)
                res['violations'].append(('%s: %s' % (r['label'], cex.get('summary', '')), path))
        else:
            by_ob[r['task'][0]]['status'] = 'inconclusive'
            res['inconclusive'].append('counterexample of %s does not reproduce natively (%s): %s' % (r['label'], note, cex.get('summary', '')))


if __name__ == '__main__':
    main()
