"""Engine M driver: mworker.py <PID> <tier> <seed> <out.json> [only]

Regenerates the MIR dump of /repo, discovers the feasible paths of the entry points the property
needs (parallel, cached by MIR hash), validates the encoding against the natively compiled crate
on one witness per path plus the literals of the repo's own tests, discharges the property's
obligations in a process pool, replays counterexamples natively, and writes the result dict.
"""
import json, os, re, subprocess, sys, time, random, traceback, hashlib
import multiprocessing as mp
import concurrent.futures as cf

HERE = os.path.dirname(os.path.abspath(__file__))
VERIF = os.path.dirname(HERE)
sys.path.insert(0, HERE)

import z3
from core import *
import models
import v1sum
import oracles
import props_v1

from natrun import native, build_replay, REPLAY_BIN
from wstate import w_init, w_summary, w_task, _W


# ------------------------------------------------------------------ master side
def main():
    pid, tier, seed, out = sys.argv[1], sys.argv[2], int(sys.argv[3]), sys.argv[4]
    only = set(sys.argv[5].split(',')) if len(sys.argv) > 5 else None
    t_start = time.time()
    res = {'engine': 'M: mirsym (MIR->SMT symbolic executor, /verif/mirsym) over `rustc +nightly -Zunpretty=mir` of /repo; z3 %s' % z3.get_version_string(),
           'rule': 'Engine M: one evaluation = one SMT query (path-feasibility query during exploration, or one property obligation '
                   '`axioms & path condition & negated property` that must be unsat); one distinct non-trivial case = one feasible '
                   'execution path of an entry point (disjoint path conditions), each confirmed reachable by the solver and by a native witness run',
           'queries': 0, 'distinct': 0, 'solver_s': 0.0, 'samples': [], 'functions': [], 'bounds': [], 'models': [],
           'obligations': [], 'violations': [], 'inconclusive': [], 'known': [], 'assumptions': [], 'validated': 0}
    try:
        drive(pid, tier, seed, only, res)
    except Unsupported as e:
        res['inconclusive'].append('Engine M: unsupported / failed validation: %s' % e)
    except Exception:
        res['inconclusive'].append('Engine M: internal error: ' + traceback.format_exc()[-2000:])
    res['solver_s'] = round(res['solver_s'], 2)
    res['wall_s'] = round(time.time() - t_start, 1)
    json.dump(res, open(out, 'w'))


def drive(pid, tier, seed, only, res):
    spec = props_v1.SPECS[pid]
    rnd = random.Random(seed)
    prog = v1sum.program(refresh=True)
    build_replay()
    kinds = spec['kinds']
    lmax = {k: spec['lmax'][tier] for k in kinds}
    if os.environ.get('VERIF_LMAX'):
        lmax = {k: int(os.environ['VERIF_LMAX']) for k in kinds}
    scripts = {}
    for k in kinds:
        st = {}
        scripts[k] = v1sum.discover_scripts(prog, k, lmax[k], stats=st)
        res['queries'] += st.get('feasibility_queries', 0)
        res['solver_s'] += st.get('explore_solver_s', 0.0)
        print('[M] %-18s LMAX=%d: %d feasible paths (%s, %d feasibility queries, %.0fs solver)' % (
            k, lmax[k], len(scripts[k]), 'cached by MIR hash' if st.get('cached') else 'explored in %.0fs' % st.get('explore_wall_s', 0),
            st.get('feasibility_queries', 0), st.get('explore_solver_s', 0.0)), flush=True)
        res['distinct'] += len(scripts[k])
        res['bounds'].append('entry %s: every input of at most LMAX=%d bytes (full byte alphabet%s); %d feasible paths' % (
            k, lmax[k], '' if k == 'bytes' else ', constrained to valid UTF-8 as the &str type guarantees', len(scripts[k])))
    res['functions'] = props_v1.functions_encoded(prog, kinds)
    res['models'] = props_v1.MODEL_LIST
    res['assumptions'] = props_v1.ASSUMPTIONS

    known = props_v1.open_roles(pid)
    # master copy of the summaries (for validation and task generation)
    w_init(lmax, scripts, known)
    summaries = {k: w_summary(k) for k in kinds}

    # ---- 3.4 validation of the encoding against the native crate
    nval = validate(prog, kinds, summaries, res, rnd)
    res['validated'] = nval

    # ---- obligations
    tasks = []
    for obname, okinds in spec['obligations']:
        for k in okinds:
            ctx, paths = summaries[k]
            for p in paths:
                if props_v1.relevant(obname, p):
                    tasks.append((obname, k, p.idx, {}))
    if only:
        sel = {o[2:] for o in only if o.startswith('M:')}
        if sel:
            tasks = [t for t in tasks if t[0] in sel]
    rnd.shuffle(tasks)
    jobs = int(os.environ.get('VERIF_M_JOBS', '14'))
    results = []
    t0 = time.time()
    with cf.ProcessPoolExecutor(max_workers=jobs, mp_context=mp.get_context('spawn'), initializer=w_init,
                                initargs=(lmax, scripts, known)) as pool:
        for rs, dt in pool.map(w_task, tasks, chunksize=4):
            results += rs
    print('[M] %d obligation tasks -> %d queries in %.0fs wall' % (len(tasks), len(results), time.time() - t0), flush=True)

    # ---- collect
    by_ob = {}
    for r in results:
        o = by_ob.setdefault(r['task'][0], {'engine': 'M', 'obligation': r['task'][0], 'queries': 0, 'unsat': 0, 'sat': 0, 'solver_s': 0.0, 'status': 'pass'})
        o['queries'] += 1
        o['solver_s'] += r.get('solver_s', 0.0)
        res['queries'] += 1
        res['solver_s'] += r.get('solver_s', 0.0)
        if r['status'] == 'unsat':
            o['unsat'] += 1
        elif r['status'] == 'sat':
            o['sat'] += 1
        else:
            o['status'] = 'inconclusive'
            res['inconclusive'].append('obligation %s on %s path %s: %s %s' % (r['label'], r['task'][1], r['task'][2], r['status'], r.get('detail', '')[:300]))
    # replay sat results
    sat = [r for r in results if r['status'] == 'sat']
    handle_counterexamples(pid, sat, res, by_ob)
    for o in by_ob.values():
        o['solver_s'] = round(o['solver_s'], 2)
        o['bound'] = '; '.join(res['bounds'])
        res['obligations'].append(o)
    for k in kinds:
        ctx, paths = summaries[k]
        for p in paths[:3]:
            if p.witness is not None:
                res['samples'].append({'engine': 'M', 'entry': k, 'path': p.idx, 'outcome': p.label(), 'witness_input': repr(p.witness)})


def validate(prog, kinds, summaries, res, rnd):
    """(a) one witness per feasible path, (b) the string literals of the repo's own v1 tests and doc
    examples: the outcome predicted by the summary must equal what the native crate does."""
    n = 0
    entry_of = props_v1.ENTRY_OF
    lits = props_v1.test_literals(prog)
    for k in kinds:
        ctx, paths = summaries[k]
        s = z3.Solver()
        s.set('arith.solver', 2)
        s.set('timeout', 120000)
        for a in ctx.axioms:
            s.add(a)
        reqs = []
        for p in paths:
            s.push()
            for c in p.pc:
                s.add(c)
            # realisable witnesses: address fields from the dictionary
            real = props_v1.realizable(ctx, p)
            s.push()
            for c in real:
                s.add(c)
            r = s.check()
            if r != z3.sat:
                s.pop()
                r = s.check()
                if r != z3.sat:
                    raise Unsupported('path %d of %s has an unsatisfiable condition on replay (%s)' % (p.idx, k, r))
                p.witness = None     # feasible only with address texts outside the dictionary: not replayable
                s.pop()
                continue
            m = s.model()
            p.witness = v1sum.model_bytes(m, ctx)
            want = props_v1.render(p, k, m)
            s.pop()
            s.pop()
            reqs.append((p, p.witness, want))
        res['solver_s'] += 0.0
        for prof in ('dev', 'release'):
            lines = native([(entry_of[k], w) for _, w, _ in reqs], prof)
            for (p, w, want), line in zip(reqs, lines):
                if not props_v1.same_outcome(want, line):
                    raise Unsupported('encoding disagrees with the native crate (%s build) on entry %s, input %r: summary path %d predicts `%s`, real code gives `%s`'
                                      % (prof, k, w, p.idx, want, line))
                n += 1
        # (b) literals: execute the MIR on each concrete literal (input fixed by extra axioms, so exactly one
        #     path is feasible) and compare the predicted outcome with the native crate
        todo = [l for l in lits if len(l) <= ctx.lmax and (k == 'bytes' or is_utf8(l))] if k != 'str_views' else []
        lines = native([(entry_of[k], l) for l in todo], 'dev')
        for lit, line in zip(todo, lines):
            fixed = list(ctx.axioms) + [ctx.L == len(lit)] + [ctx.S(i) == b for i, b in enumerate(lit)] + [props_v1.dictionary_axioms(ctx, lit)]
            ex = v1sum.new_exec(prog, [ctx], ctx.lmax)
            ex.suffix = ctx.suffix
            got = explore(ex, v1sum.runner(prog, k, ctx), base_axioms=fixed)
            if len(got) != 1:
                raise Unsupported('literal %r drives %d paths of entry %s (expected exactly 1)' % (lit, len(got), k))
            sc, items_, outc, notes = got[0]
            p1 = v1sum.Path(sc, items_, outc, notes, -1)
            pc = p1.pc
            props_v1.annotate(prog, k, [p1])
            s.push()
            for a in fixed[len(ctx.axioms):]:
                s.add(a)
            for c in pc:
                s.add(c)
            if s.check() != z3.sat:
                raise Unsupported('literal %r: path condition not satisfiable' % (lit,))
            want = props_v1.render(p1, k, s.model())
            s.pop()
            if not props_v1.same_outcome(want, line):
                raise Unsupported('encoding disagrees with the native crate on test literal %r (entry %s): predicted `%s`, real `%s`' % (lit, k, want, line))
            n += 1
        print('[M] validation %s: %d path witnesses x 2 profiles + %d test literals agree with the native crate' % (k, len(reqs), len(todo)), flush=True)
    return n


def is_utf8(b):
    try:
        b.decode('utf-8')
        return True
    except UnicodeDecodeError:
        return False


def handle_counterexamples(pid, sat, res, by_ob):
    if not sat:
        return
    os.makedirs(os.path.join(VERIF, 'replays', pid), exist_ok=True)
    seen_known = set()
    nviol = 0
    for r in sat:
        role = r.get('role')
        cex = r.get('cex')
        if cex is None:
            res['inconclusive'].append('obligation %s: sat but no realisable counterexample (%s)' % (r['label'], r.get('detail', '')))
            by_ob[r['task'][0]]['status'] = 'inconclusive'
            continue
        ok, note = props_v1.replay_cex(cex, native)
        if role:
            # a listed known finding: report once per role if it still reproduces
            if ok and role not in seen_known:
                seen_known.add(role)
                res['known'].append('%s [%s] e.g. %s' % (props_v1.role_description(pid, role), role, cex.get('summary', '')))
            elif ok is None:
                res['inconclusive'].append('known-finding witness for role %s could not be replayed: %s' % (role, note))
            continue
        if ok:
            by_ob[r['task'][0]]['status'] = 'violated'
            nviol += 1
            if nviol <= 12:
                h = hashlib.sha256(json.dumps(cex, sort_keys=True).encode()).hexdigest()[:10]
                path = os.path.join(VERIF, 'replays', pid, '%s-%s.json' % (re.sub(r'[^A-Za-z0-9_.-]+', '_', r['label']).strip('_'), h))
                json.dump(cex, open(path, 'w'), indent=1)
                res['violations'].append(('%s: %s' % (r['label'], cex.get('summary', '')), path))
        else:
            by_ob[r['task'][0]]['status'] = 'inconclusive'
            res['inconclusive'].append('counterexample of %s does not reproduce natively (%s): %s' % (r['label'], note, cex.get('summary', '')))


if __name__ == '__main__':
    main()
