"""More std models for Engine M: the iterator / char / integer-parsing APIs that *edited* versions of ppp's
text parser tend to use (the unmodified tree needs none of them). Every model is a transcription of the
documented behaviour; like all std models they are part of the trusted base and are exercised by the per-path
native validation (a wrong model makes the check inconclusive, never a pass).

Iterators over the input are one lazy value (SeqIter): a window [lo, hi) of the underlying slice, the element
unit (byte by reference / byte by value / char), the closures mapped over the elements and a `take` budget.
Searching consumers (position, any, all, find) become one "first index with predicate" definition, where the
predicate formula is obtained by executing the mapped closures and the consumer's closure (their own MIR) on a
fresh symbolic element."""
import re
import z3
from core import *
import models
from models import Some, NoneV, Ok, Err, ctx_of, byte_at, find_first, stable_hash

I = z3.IntSort()


class SeqIter:
    kind = 'seqiter'

    def __init__(self, s, lo, hi, unit, byref, maps=()):
        self.s, self.lo, self.hi, self.unit, self.byref, self.maps = s, lo, hi, unit, byref, list(maps)

    def clone(self):
        return SeqIter(self.s, self.lo, self.hi, self.unit, self.byref, self.maps)


def is_seq(v):
    v = deref(v) if isinstance(v, Ref) else v
    return isinstance(v, SeqIter)


def cont_count(ex, c):
    """cnt(j) = number of UTF-8 continuation bytes (0x80..0xBF) in S[0, j): per-position definition"""
    key = ('contcount',)
    if key in c._next:
        return c._next[key]
    f = z3.Function('u8cont' + c.suffix, I, I)
    ax = [f(0) == 0]
    for j in range(c.lmax + 1):
        b = c.S(j)
        ax.append(f(j + 1) == f(j) + z3.If(z3.And(b >= 0x80, b <= 0xBF), 1, 0))
    c._next[key] = f
    c.axioms += ax
    # the base axioms of a solver that is already running do not contain the new definition: add it to this path
    for a in ax:
        ex.assume(a, 'd')
    return f


_pred_cache = {}


def elem_pred(ex, it, consumer, negate=False, consumer_byref=False):
    """formula builder b -> Bool for `consumer(maps(elem))` on the element whose first byte is b.
    Obtained by exploring the closures' MIR on a fresh symbolic element; cached per closure chain."""
    names = [getattr(m, 'fnname', getattr(m, 'name', '?')) for m in it.maps] + [getattr(consumer, 'fnname', getattr(consumer, 'name', '?'))]
    key = (id(ex.prog), it.unit, it.byref, tuple(names), negate, consumer_byref)
    if key in _pred_cache:
        return _pred_cache[key]
    sub_ex = Exec(ex.prog, ex.dispatch)
    sub_ex.ctxs = []
    sub_ex.lmax = ex.lmax
    sub_ex.hooks = list(getattr(ex, 'hooks', []))
    x = z3.Int('elt_x')
    hi = 255 if it.unit == 'byte' else 0x10FFFF
    cases = []

    def run(e):
        e.assume(z3.And(x >= 0, x <= hi))
        if it.unit == 'char':
            e.assume(z3.Or(x < 0xD800, x > 0xDFFF))
        v = Ref(Cell(x)) if it.byref else x
        for m in it.maps:
            v = apply_fn(e, m, [v])
        if consumer_byref:
            v = Ref(Cell(v))
        return apply_fn(e, consumer, [v])
    for script, items, out, notes in explore(sub_ex, run):
        if out[0] != 'ret':
            raise Unsupported('element predicate panics')
        r = out[1]
        if not (isinstance(r, bool) or z3.is_bool(r)):
            raise Unsupported('element predicate is not boolean')
        cases.append(and_(*([c_ for _, c_ in items] + [r])))
    f = z3.simplify(Z(or_(*cases)))
    if negate:
        f = z3.simplify(z3.Not(f))
    if it.unit == 'char':
        # byte-level use of a char predicate: it must be constant on the non-ASCII chars (then it is decided by the lead byte)
        s = z3.Solver()
        y = z3.Int('elt_y')
        s.add(x >= 128, y >= 128, x <= hi, y <= hi, z3.Or(x < 0xD800, x > 0xDFFF), z3.Or(y < 0xD800, y > 0xDFFF), f, z3.Not(z3.substitute(f, (x, y))))
        if s.check() != z3.unsat:
            raise Unsupported('char predicate distinguishes non-ASCII chars: byte-level model not applicable')
        s = z3.Solver()
        s.add(x == 0x100, f)
        nonascii = s.check() == z3.sat
        fn = lambda b, f=f, nonascii=nonascii: z3.If(b < 128, z3.substitute(f, (x, Z(b))), z3.And(z3.BoolVal(nonascii), b >= 0xC0))
    else:
        fn = lambda b, f=f: z3.substitute(f, (x, Z(b)))
    _pred_cache[key] = (fn, stable_hash(f.sexpr() + str(key[1:])))
    return _pred_cache[key]


def seq_next(ex, it):
    if not ex.branch(lt(it.lo, it.hi)):
        return NoneV()
    v = elem_at(ex, it, it.lo)
    it.lo = add(it.lo, getattr(it, '_last_width', 1) if it.unit == 'char' else 1)
    return Some(v)


def splitstr_next(ex, it):
    """str::split / splitn with a non-empty ASCII literal pattern: pieces between successive (non-overlapping,
    leftmost) occurrences; a trailing empty piece is yielded"""
    if it.finished or it.count == 0:
        return NoneV()
    s = it.s
    rest = Str(s.buf, it.pos, s.end, s.is_str)
    if it.count == 1:
        it.count = 0
        it.finished = True
        return Some(rest)
    it.count -= 1
    r = models.dispatch(ex, 'core::str::<impl str>::find::<&str>', [rest, it.lit], {'generics': {}})
    if r.variant == 'None':
        it.finished = True
        return Some(rest)
    j = add(it.pos, r.fields[0])
    piece = Str(s.buf, it.pos, j, s.is_str)
    it.pos = add(j, len(it.lit.bytes()))
    return Some(piece)


def apply_fn(ex, fn, args):
    if isinstance(fn, Closure):
        return models.call_closure(ex, fn, args)
    if isinstance(fn, FnItem):
        return ex.dispatch(ex, fn.name, args, {'generics': {}, 'fn': None, 'locals': {}})
    raise Unsupported('callable ' + repr(fn))


def elem_at(ex, it, j):
    """the element whose first byte is at absolute index j (maps applied)"""
    b = it.s.buf.at(j)
    if it.unit == 'char':
        # UTF-8 decoding of the scalar value that starts at j (the slice is valid UTF-8: the &str type guarantees it)
        c = lambda k: sub(it.s.buf.at(add(j, k)), 128)
        if ex.branch(lt(b, 128)):
            it._last_width = 1
        elif ex.branch(lt(b, 0xE0)):
            b = add(mul(sub(b, 0xC0), 64), c(1))
            it._last_width = 2
        elif ex.branch(lt(b, 0xF0)):
            b = add(add(mul(sub(b, 0xE0), 4096), mul(c(1), 64)), c(2))
            it._last_width = 3
        else:
            b = add(add(add(mul(sub(b, 0xF0), 262144), mul(c(1), 4096)), mul(c(2), 64)), c(3))
            it._last_width = 4
    v = Ref(Cell(b)) if it.byref else b
    for m in it.maps:
        v = apply_fn(ex, m, [v])
    return v


def first_match(ex, it, fn, key):
    sub = Str(it.s.buf, it.lo, it.hi, it.s.is_str)
    return find_first(ex, sub, it.lo, key, fn)


def char_index(ex, it, j):
    """number of chars in [lo, j)"""
    if it.unit != 'char':
        return sub(j, it.lo)
    c = ctx_of(ex, it.s)
    f = cont_count(ex, c)
    return sub(sub(j, it.lo), sub(f(Z(j)), f(Z(it.lo))))


def parse_uint(ex, s, ty):
    """<uN as FromStr>::from_str (radix 10) for the unsigned types, same event order as core::num"""
    c = ctx_of(ex, s)
    if c is None:
        raise Unsupported('parse::<%s> on a non-input buffer' % ty)
    lo, hi = int_range(ty)
    nd = len(str(hi))
    n = s.len()
    if not ex.branch(gt(n, 0)):
        return Err(Opaque('ParseIntError', ekind='Empty'))
    first = byte_at(s, 0)
    sign = or_(eq(first, 43), eq(first, 45))
    if ex.branch(and_(eq(n, 1), sign)):
        return Err(Opaque('ParseIntError', ekind='InvalidDigit'))
    plus = eq(first, 43)
    dstart = ex.fresh('ds')
    ex.assume(dstart == ite(plus, add(s.start, 1), s.start))
    dend = ex.fresh('dend')
    ex.assume(z3.And(dstart <= dend, dend <= Z(s.end)))
    ex.assume(c.forall_range(dstart, dend, 'digit', models.is_digit))
    ex.assume(z3.Or(dend == Z(s.end), z3.Not(models.is_digit(c.S(dend)))))
    zpos = ex.fresh('z')
    ex.assume(z3.And(dstart <= zpos, zpos <= dend))
    ex.assume(c.forall_range(dstart, zpos, 'zero', lambda b: b == 48))
    ex.assume(z3.Or(zpos == dend, c.S(zpos) != 48))
    sig = sub(dend, zpos)
    v = 0
    for k in range(nd):
        d = sub(c.byte(add(zpos, k)), 48)
        v = ite(lt(add(zpos, k), dend), add(mul(v, 10), d), v)
    val = ex.fresh('uval')
    ex.assume(val == Z(v))
    overflow = or_(gt(sig, nd), and_(eq(sig, nd), gt(val, hi)))
    if ex.branch(overflow):
        return Err(Opaque('ParseIntError', ekind='PosOverflow'))
    if ex.branch(lt(dend, s.end)):
        return Err(Opaque('ParseIntError', ekind='InvalidDigit'))
    return Ok(val)


CHAR_PREDS = {
    'is_ascii_digit': lambda c: and_(ge(c, 48), le(c, 57)),
    'is_ascii': lambda c: lt(c, 128),
    'is_ascii_uppercase': lambda c: and_(ge(c, 65), le(c, 90)),
    'is_ascii_lowercase': lambda c: and_(ge(c, 97), le(c, 122)),
    'is_ascii_alphabetic': lambda c: or_(and_(ge(c, 65), le(c, 90)), and_(ge(c, 97), le(c, 122))),
    'is_ascii_alphanumeric': lambda c: or_(and_(ge(c, 48), le(c, 57)), and_(ge(c, 65), le(c, 90)), and_(ge(c, 97), le(c, 122))),
    'is_ascii_hexdigit': lambda c: or_(and_(ge(c, 48), le(c, 57)), and_(ge(c, 65), le(c, 70)), and_(ge(c, 97), le(c, 102))),
    'is_ascii_whitespace': lambda c: or_(eq(c, 32), eq(c, 9), eq(c, 10), eq(c, 12), eq(c, 13)),
    'is_ascii_punctuation': lambda c: or_(and_(ge(c, 33), le(c, 47)), and_(ge(c, 58), le(c, 64)), and_(ge(c, 91), le(c, 96)), and_(ge(c, 123), le(c, 126))),
    'is_ascii_graphic': lambda c: and_(ge(c, 33), le(c, 126)),
    'is_ascii_control': lambda c: or_(lt(c, 32), eq(c, 127)),
}


def lower(b):
    return ite(and_(ge(b, 65), le(b, 90)), add(b, 32), b)


def hook(ex, func, argv, frame):
    f = func
    g = strip_generics(f)
    a = argv
    # ---- char / u8 classification
    m = re.match(r'^(?:core|std)::(?:char::methods::<impl char>|num::<impl u8>)::(\w+)$', g)
    if m and m.group(1) in CHAR_PREDS:
        return True, CHAR_PREDS[m.group(1)](deref(a[0]) if isinstance(a[0], Ref) else a[0])
    if m and m.group(1) in ('to_ascii_lowercase', 'to_ascii_uppercase'):
        c = deref(a[0]) if isinstance(a[0], Ref) else a[0]
        if m.group(1) == 'to_ascii_lowercase':
            return True, lower(c)
        return True, ite(and_(ge(c, 97), le(c, 122)), sub(c, 32), c)
    if m and m.group(1) == 'eq_ignore_ascii_case':
        x, y = (deref(v) if isinstance(v, Ref) else v for v in a[:2])
        return True, eq(lower(x), lower(y))
    if m and m.group(1) == 'to_digit':
        c = a[0]
        if a[1] != 10:
            raise Unsupported('to_digit radix')
        if ex.branch(and_(ge(c, 48), le(c, 57))):
            return True, Some(sub(c, 48))
        return True, NoneV()
    if g in ('<char as std::convert::From<u8>>::from', '<u32 as std::convert::From<char>>::from', '<u32 as std::convert::From<u8>>::from'):
        return True, a[0]
    if re.match(r'^<char as std::cmp::PartialEq>::(eq|ne)$', g) or re.match(r'^<u8 as std::cmp::PartialEq>::(eq|ne)$', g):
        e = eq(deref(a[0]), deref(a[1]))
        return True, (not_(e) if g.endswith('ne') else e)
    # ---- str helpers
    if g == 'core::str::<impl str>::eq_ignore_ascii_case':
        x, y = deref(a[0]), deref(a[1])
        if y.concrete():
            data = y.bytes()
            return True, and_(eq(x.len(), len(data)), *[eq(lower(byte_at(x, i)), lower(data[i])) for i in range(len(data))])
        if x.concrete():
            data = x.bytes()
            return True, and_(eq(y.len(), len(data)), *[eq(lower(byte_at(y, i)), lower(data[i])) for i in range(len(data))])
        raise Unsupported('eq_ignore_ascii_case of two symbolic strings')
    if g == 'core::str::<impl str>::is_ascii' or g in ('core::slice::<impl [u8]>::is_ascii', 'core::slice::ascii::<impl [u8]>::is_ascii'):
        s = deref(a[0])
        c = ctx_of(ex, s)
        if c is None:
            raise Unsupported('is_ascii on a non-input buffer')
        return True, c.forall_range(s.start, s.end, 'ascii', lambda b: b < 128)
    if g == 'core::str::<impl str>::split_at':
        s = deref(a[0])
        mid = a[1]
        if not ex.branch(le(mid, s.len())):
            raise Panic('split_at: mid out of range')
        b = s.buf.at(add(s.start, mid))
        if not ex.branch(or_(eq(mid, 0), eq(mid, s.len()), not_(and_(ge(b, 128), lt(b, 192))))):
            raise Panic('split_at: not a char boundary')
        cut = add(s.start, mid)
        return True, Tuple([Str(s.buf, s.start, cut, True), Str(s.buf, cut, s.end, True)])
    if g in ('core::str::<impl str>::split_once', 'core::str::<impl str>::rsplit_once'):
        s = deref(a[0])
        if f.endswith('::<char>') and isinstance(a[1], int) and a[1] < 128:
            ch = a[1]
            if 'rsplit' in g:
                r = models.dispatch(ex, "core::str::<impl str>::rfind::<char>", [s, ch], frame)
            else:
                r = models.dispatch(ex, "core::str::<impl str>::find::<char>", [s, ch], frame)
            if r.variant == 'None':
                return True, NoneV()
            j = add(s.start, r.fields[0])
            return True, Some(Tuple([Str(s.buf, s.start, j, True), Str(s.buf, add(j, 1), s.end, True)]))
        if f.endswith('::<&str>'):
            pat = deref(a[1])
            if 'rsplit' in g or not pat.concrete():
                raise Unsupported('rsplit_once / symbolic pattern')
            r = models.dispatch(ex, "core::str::<impl str>::find::<&str>", [s, pat], frame)
            if r.variant == 'None':
                return True, NoneV()
            j = add(s.start, r.fields[0])
            return True, Some(Tuple([Str(s.buf, s.start, j, True), Str(s.buf, add(j, len(pat.bytes())), s.end, True)]))
        raise Unsupported('split_once pattern kind')
    if g == 'core::str::<impl str>::split' or g == 'core::str::<impl str>::split_terminator':
        if g.endswith('split_terminator'):
            raise Unsupported('split_terminator')
        s = deref(a[0])
        if f.endswith('::<char>'):
            ch = a[1]
            if not isinstance(ch, int) or ch >= 128:
                raise Unsupported('split by a non-ASCII / symbolic char')
            return True, Opaque('splitn', s=s, pos=s.start, count=10 ** 9, finished=False, pred=lambda b, ch=ch: b == ch, key='eq%d' % ch)
        if isinstance(a[1], Closure):
            fn, key = models.closure_pred(ex, a[1])
            return True, Opaque('splitn', s=s, pos=s.start, count=10 ** 9, finished=False, pred=fn, key='clo_' + stable_hash(a[1].fnname + key))
        pat = deref(a[1]) if isinstance(a[1], (Ref, Str)) else None
        if isinstance(pat, Str) and pat.concrete() and 0 < len(pat.bytes()) and all(b < 128 for b in pat.bytes()):
            return True, Opaque('splitstr', s=s, pos=s.start, lit=pat, finished=False, count=10 ** 9)
        raise Unsupported('split pattern kind')
    if g == 'core::str::<impl str>::splitn' and f.endswith('::<char>'):
        s = deref(a[0])
        ch = a[2]
        if not isinstance(ch, int) or ch >= 128:
            raise Unsupported('splitn by a non-ASCII / symbolic char')
        return True, Opaque('splitn', s=s, pos=s.start, count=a[1], finished=False, pred=lambda b, ch=ch: b == ch, key='eq%d' % ch)
    if g == 'core::str::<impl str>::parse':
        t = f[f.index('parse::<') + 8:-1]
        if t in ('u8', 'u32', 'u64', 'usize', 'u128'):
            return True, parse_uint(ex, a[0], t)
    mm = re.match(r'^core::num::<impl (u8|u16|u32|u64|usize)>::from_str_radix$', g)
    if mm:
        if a[1] != 10:
            raise Unsupported('from_str_radix with radix %r' % (a[1],))
        return True, parse_uint(ex, deref(a[0]), mm.group(1))
    # ---- `&&str` patterns behave like `&str` patterns
    mpp = re.match(r'^(core::str::<impl str>::\w+)::<&&str>$', f)
    if mpp:
        return True, ex.dispatch(ex, mpp.group(1) + '::<&str>', [a[0], deref(a[1])] + list(a[2:]), frame)
    # ---- str::parse::<T> for a crate type is T's own FromStr impl
    if g == 'core::str::<impl str>::parse':
        t = f[f.index('parse::<') + 8:-1]
        if not t.startswith(('std::', 'core::', 'u', 'i', 'f', 'bool', 'char')):
            return True, ex.dispatch(ex, '<%s as std::str::FromStr>::from_str' % t, [a[0]], frame)
    # ---- Utf8Error accessors (the error value remembers the slice that was validated)
    if g in ('std::str::Utf8Error::valid_up_to', 'core::str::Utf8Error::valid_up_to', 'std::str::Utf8Error::error_len', 'core::str::Utf8Error::error_len'):
        e_ = deref(a[0])
        sl = getattr(e_, 's', None)
        c = ctx_of(ex, sl) if sl is not None else None
        if c is None or not (is_c(sl.start) and sl.start == 0):
            raise Unsupported('Utf8Error of something other than a prefix of the input')
        okp, rem = c.utf8fns()
        n = sl.end
        if g.endswith('error_len'):
            # None <=> the input ended inside a character (no invalid byte was seen)
            if ex.branch(okp(Z(n))):
                return True, NoneV()
            k = ex.fresh('u8elen')
            ex.assume(z3.And(k >= 1, k <= 3))
            return True, Some(k)
        # valid_up_to: the longest prefix that is complete, valid UTF-8
        j = ex.fresh('u8upto')
        cs = [j >= 0, j <= Z(n), okp(j), rem(j) == 0]
        for k in range(c.lmax + 2):
            cs.append(z3.Or(z3.Not(j < k), z3.Not(Z(n) >= k), z3.Not(z3.And(okp(k), rem(k) == 0))))
        ex.assume(z3.And(cs))
        return True, j
    # ---- direct FromStr calls (the same functions `str::parse` resolves to)
    mm = re.match(r'^<(u8|u16|u32|u64|usize|u128) as std::str::FromStr>::from_str$', g)
    if mm:
        return True, (models.parse_u16(ex, deref(a[0])) if mm.group(1) == 'u16' else parse_uint(ex, deref(a[0]), mm.group(1)))
    mm = re.match(r'^<std::net::Ipv([46])Addr as std::str::FromStr>::from_str$', g)
    if mm:
        return True, models.parse_addr(ex, deref(a[0]), int(mm.group(1)))
    # ---- TryInto -> TryFrom
    mm = re.match(r'^<(.*) as std::convert::TryInto<(.*)>>::try_into$', f)
    if mm:
        return True, ex.dispatch(ex, '<%s as std::convert::TryFrom<%s>>::try_from' % (mm.group(2), mm.group(1)), a, frame)
    # ---- starts_with / ends_with with a closure or fn predicate on the first / last char
    if g in ('core::str::<impl str>::starts_with', 'core::str::<impl str>::ends_with') and not (f.endswith('::<char>') or f.endswith('::<&str>') or f.endswith('::<&&str>')):
        s = deref(a[0])
        pat = a[1]
        if isinstance(pat, (Closure, FnItem)):
            it = SeqIter(s, s.start, s.end, 'char', False)
            fn, key = elem_pred(ex, it, pat)
            if 'starts_with' in g:
                return True, and_(gt(s.len(), 0), fn(byte_at(s, 0)), lt(byte_at(s, 0), 128))
            last = s.buf.at(sub(s.end, 1))
            return True, and_(gt(s.len(), 0), fn(last), lt(last, 128))
    mset = re.search(r"::<&?\[char(; \d+)?\]>$", f)
    if mset and g in ('core::str::<impl str>::trim_start_matches', 'core::str::<impl str>::trim_end_matches', 'core::str::<impl str>::find',
                      'core::str::<impl str>::contains', 'core::str::<impl str>::split', 'core::str::<impl str>::starts_with', 'core::str::<impl str>::ends_with'):
        import models_v2
        pat = models_v2.as_slice(deref(a[1]) if isinstance(a[1], Ref) else a[1])
        items = list(pat.items) if isinstance(pat, (Tuple, ArrSlice)) else None
        if items is None or not all(isinstance(x, int) and x < 128 for x in items):
            raise Unsupported('char-set pattern with symbolic / non-ASCII members')
        s = deref(a[0])
        c = ctx_of(ex, s)
        inset = lambda b, items=items: z3.Or([b == x for x in items]) if items else z3.BoolVal(False)
        key = 'set' + '_'.join(str(x) for x in sorted(items))
        if g.endswith('starts_with'):
            return True, and_(gt(s.len(), 0), inset(byte_at(s, 0)))
        if g.endswith('ends_with'):
            return True, and_(gt(s.len(), 0), inset(s.buf.at(sub(s.end, 1))))
        if c is None:
            raise Unsupported('char-set pattern on a non-input buffer')
        if g.endswith('::split'):
            return True, Opaque('splitn', s=s, pos=s.start, count=10 ** 9, finished=False, pred=inset, key=key)
        if g.endswith('::find') or g.endswith('::contains'):
            found, j = find_first(ex, s, s.start, key, inset)
            if g.endswith('contains'):
                return True, found
            return True, (Some(sub(j, s.start)) if found else NoneV())
        j = ex.fresh('trs')
        if 'trim_start' in g:
            ex.assume(z3.And(Z(s.start) <= j, j <= Z(s.end), c.forall_range(s.start, j, key, inset), z3.Or(j == Z(s.end), z3.Not(inset(c.S(j))))))
            return True, Str(s.buf, j, s.end, s.is_str)
        ex.assume(z3.And(Z(s.start) <= j, j <= Z(s.end), c.forall_range(j, s.end, key, inset), z3.Or(j == Z(s.start), z3.Not(inset(c.S(j - 1))))))
        return True, Str(s.buf, s.start, j, s.is_str)
    if g in ('core::str::<impl str>::trim_start_matches', 'core::str::<impl str>::trim_end_matches') and (f.endswith('::<&str>') or f.endswith('::<&&str>')):
        pat = deref(a[1])
        if isinstance(pat, Str) and pat.concrete() and len(pat.bytes()) == 1 and pat.bytes()[0] < 128:
            # a one-byte ASCII literal pattern behaves like the char pattern
            return True, models.dispatch(ex, f[:f.rindex('::<')] + '::<char>', [a[0], pat.bytes()[0]], frame)
    if g == 'core::str::<impl str>::trim_end_matches' and f.endswith('::<&str>'):
        s, pat = deref(a[0]), deref(a[1])
        if pat.concrete() and 0 < len(pat.bytes()) <= 2:
            # repeated removal of a 1- or 2-byte literal from the end, at most LMAX/len times
            cur = s
            for _ in range(ex.lmax // len(pat.bytes()) + 1):
                if not ex.branch(models.ends_with(ex, cur, pat)):
                    return True, cur
                cur = Str(cur.buf, cur.start, sub(cur.end, len(pat.bytes())), cur.is_str)
            raise Unsupported('trim_end_matches did not terminate within LMAX')
    # ---- iterator constructors
    if g in ('core::slice::<impl [u8]>::iter', 'core::slice::<impl [T]>::iter'):
        s = deref(a[0])
        if isinstance(s, Str) and not s.concrete():
            return True, SeqIter(s, s.start, s.end, 'byte', True)
        return False, None
    if g == 'core::str::<impl str>::bytes':
        s = deref(a[0])
        return True, SeqIter(s, s.start, s.end, 'byte', False)
    if g == 'core::str::<impl str>::chars':
        s = deref(a[0])
        return True, SeqIter(s, s.start, s.end, 'char', False)
    if g in ('core::slice::<impl [u8]>::windows', 'core::slice::<impl [T]>::windows'):
        s = deref(a[0])
        if isinstance(s, Str) and isinstance(a[1], int) and 1 <= a[1] <= 4 and ctx_of(ex, s) is not None:
            return True, Opaque('windows', s=s, n=a[1])
        raise Unsupported('windows on ' + repr(s))
    if a and isinstance(deref(a[0]) if isinstance(a[0], Ref) else a[0], Opaque) and (deref(a[0]) if isinstance(a[0], Ref) else a[0]).kind == 'windows' and g.endswith('>::position'):
        w = deref(a[0]) if isinstance(a[0], Ref) else a[0]
        c = ctx_of(ex, w.s)
        n = w.n
        xs = [z3.Int('win_x%d' % i) for i in range(n)]
        sub_ex = Exec(ex.prog, ex.dispatch)
        sub_ex.ctxs = []
        sub_ex.lmax = ex.lmax
        sub_ex.hooks = list(getattr(ex, 'hooks', []))
        cases = []

        def run(e):
            e.assume(z3.And([z3.And(x >= 0, x <= 255) for x in xs]))
            return models.call_closure(e, a[1], [ArrSlice(list(xs))])
        for script, items, out, notes in explore(sub_ex, run):
            if out[0] != 'ret':
                raise Unsupported('window predicate panics')
            cases.append(and_(*([c_ for _, c_ in items] + [out[1]])))
        fml = z3.simplify(Z(or_(*cases)))
        occ = lambda k: z3.And(Z(k) + n <= Z(w.s.end), z3.substitute(fml, *[(xs[i], c.S(Z(k) + i)) for i in range(n)]))
        j = ex.fresh('win')
        cs = [Z(w.s.start) <= j, j <= Z(w.s.end), z3.Or(j == Z(w.s.end), occ(j))]
        for k in range(c.lmax + 1):
            cs.append(z3.Or(z3.Not(Z(w.s.start) <= k), z3.Not(j > k), z3.Not(occ(k))))
        ex.assume(z3.And(cs))
        if ex.branch(j < Z(w.s.end)):
            return True, Some(sub(j, w.s.start))
        return True, NoneV()
    # ---- adaptors / consumers on SeqIter
    if not (a and is_seq(a[0])):
        return False, None
    mt = re.match(r'^<.* as std::iter::(?:Iterator|DoubleEndedIterator|ExactSizeIterator)>::(\w+)$', g)
    if not mt:
        mt = re.match(r'^std::iter::(?:Iterator|DoubleEndedIterator|ExactSizeIterator)::(\w+)$', g)
    if not mt:
        return False, None
    meth = mt.group(1)
    it = deref(a[0]) if isinstance(a[0], Ref) else a[0]
    if meth in ('map',):
        n = it.clone()
        n.maps.append(a[1])
        return True, n
    if meth in ('copied', 'cloned'):
        n = it.clone()
        if not n.maps:
            n.byref = False
        else:
            raise Unsupported('copied after map')
        return True, n
    if meth == 'by_ref':
        return True, a[0]
    if meth == 'take':
        if it.unit != 'byte':
            raise Unsupported('take on a char iterator')
        n = it.clone()
        n.hi = ite(lt(add(it.lo, a[1]), it.hi), add(it.lo, a[1]), it.hi)
        return True, n
    if meth == 'skip':
        if it.unit != 'byte':
            raise Unsupported('skip on a char iterator')
        n = it.clone()
        n.lo = ite(lt(add(it.lo, a[1]), it.hi), add(it.lo, a[1]), it.hi)
        return True, n
    if meth in ('position', 'any', 'all', 'find'):
        fn, key = elem_pred(ex, it, a[1], negate=(meth == 'all'), consumer_byref=(meth == 'find'))
        found, j = first_match(ex, it, fn, 'seq_' + key)
        if meth == 'any':
            if isinstance(a[0], Ref):
                it.lo = add(j, 1) if found else it.hi
            return True, found
        if meth == 'all':
            if isinstance(a[0], Ref):
                it.lo = add(j, 1) if found else it.hi
            return True, not found
        if not found:
            if isinstance(a[0], Ref):
                it.lo = it.hi
            return True, NoneV()
        if meth == 'position':
            idx = char_index(ex, it, j)
            if isinstance(a[0], Ref):
                it.lo = add(j, 1)
            return True, Some(idx)
        v = elem_at(ex, it, j)
        if isinstance(a[0], Ref):
            it.lo = add(j, 1)
        return True, Some(v)
    if meth == 'count':
        return True, char_index(ex, it, it.hi)
    if meth == 'len':
        if it.unit != 'byte':
            raise Unsupported('len of a char iterator')
        return True, sub(it.hi, it.lo)
    if meth == 'next':
        return True, seq_next(ex, it)
    if meth == 'nth':
        if it.unit != 'byte':
            raise Unsupported('nth on a char iterator')
        if not ex.branch(lt(add(it.lo, a[1]), it.hi)):
            it.lo = it.hi
            return True, NoneV()
        v = elem_at(ex, it, add(it.lo, a[1]))
        it.lo = add(it.lo, add(a[1], 1))
        return True, Some(v)
    if meth == 'peekable':
        return True, Opaque('peekable', inner=it, peeked=None)
    raise Unsupported('iterator method %s on an input iterator' % meth)
