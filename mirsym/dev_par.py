import sys, time, os
sys.path.insert(0, os.path.dirname(os.path.abspath(__file__)))
import z3
from core import *
import models, v1sum
from collections import Counter
if __name__=='__main__':
    lmax=int(os.environ.get('LMAX','40')); kind=sys.argv[1] if len(sys.argv)>1 else 'str'
    prog=v1sum.program(refresh=False)
    t0=time.time(); st={}
    scripts=v1sum.discover_scripts(prog,kind,lmax,stats=st,use_cache=not os.environ.get('NOCACHE'))
    print(len(scripts),'scripts in %.1fs'%(time.time()-t0), st)
    t0=time.time()
    ctx=models.InputCtx(lmax)
    paths=v1sum.summarize(prog,kind,ctx,scripts=scripts)
    print('replay %.1fs'%(time.time()-t0))
    cnt=Counter(p.label() for p in paths)
    for k,v in sorted(cnt.items()): print('  %4d %s'%(v,k))
