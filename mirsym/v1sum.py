"""Path summaries of ppp's v1 entry points (Engine M)."""
import hashlib, json, os, re, subprocess, sys, time
import z3
from core import *
import models
from models import InputCtx

VERIF = os.path.dirname(os.path.dirname(os.path.abspath(__file__)))
MIRDIR = os.path.join(VERIF, '.build', 'mir')
REPO = os.environ.get('PPP_REPO', '/repo')


def regenerate_mir():
    """Dump the MIR of /repo's working tree (nightly rustc; /repo itself is not touched)."""
    os.makedirs(MIRDIR, exist_ok=True)
    env = dict(os.environ, CARGO_NET_OFFLINE='true')
    env.pop('RUSTFLAGS', None)
    out = os.path.join(MIRDIR, 'ppp.mir')
    # force the crate itself to be re-emitted, keep compiled dependencies
    subprocess.run(['cargo', '+nightly', 'clean', '--offline', '-p', 'ppp', '--manifest-path', REPO + '/Cargo.toml',
                    '--target-dir', MIRDIR], env=env, stdout=subprocess.DEVNULL, stderr=subprocess.DEVNULL)
    p = subprocess.run(['cargo', '+nightly', 'rustc', '--offline', '--lib', '--manifest-path', REPO + '/Cargo.toml',
                        '--target-dir', MIRDIR, '--', '-Zunpretty=mir', '-Ztrim-diagnostic-paths=no',
                        '-C', 'debug-assertions=off', '-C', 'overflow-checks=on'],
                       env=env, stdout=subprocess.PIPE, stderr=subprocess.PIPE, text=True)
    if p.returncode != 0 or 'fn ' not in p.stdout:
        raise Unsupported('could not produce the MIR dump of /repo: ' + p.stderr[-2000:])
    with open(out, 'w') as f:
        f.write(p.stdout)
    return p.stdout


_prog = None


def program(refresh=True):
    global _prog
    if _prog is None:
        path = os.path.join(MIRDIR, 'ppp.mir')
        if refresh or not os.path.exists(path):
            text = regenerate_mir()
        else:
            text = open(path).read()
        _prog = Program(text, REPO)
        _prog.mir_sha_full = hashlib.sha256(text.encode()).hexdigest()
        # the v1 entry points never reach v2 code: their caches are keyed by the MIR of everything except `v2::*` items,
        # so that an edit confined to src/v2 does not invalidate them (any other edit does)
        keep = []
        skip = False
        for line in text.split('\n'):
            if re.match(r'^(fn|const|static|promoted\[\d+\] in) ', line) or (line and not line[0].isspace() and line[0] not in '}'):
                skip = bool(re.match(r'^(fn|const|static) v2::', line) or re.match(r'^promoted\[\d+\] in v2::', line) or re.match(r'^// MIR FOR .*v2::', line))
            if not skip:
                keep.append(line)
        _prog.mir_sha = hashlib.sha256('\n'.join(keep).encode()).hexdigest()
    return _prog


def find_entry(prog, trait_pat, self_pat, method):
    c = [n for (tr, ty, m, n) in prog.impl_index if m == method and tr and re.search(trait_pat, tr) and re.search(self_pat, ty)]
    if len(c) != 1:
        raise Unsupported('entry point %s/%s/%s: %r' % (trait_pat, self_pat, method, c))
    return c[0]


def views_runner(prog, ctx):
    """TryFrom<&str> followed, on success, by Header::protocol(), Header::addresses_str() and Display::fmt
    on the returned value (their MIR is executed on the same path; panics there are Panic outcomes)"""
    base = runner(prog, 'str', ctx)
    proto = [n for (tr, ty, m, n) in prog.impl_index if tr is None and m == 'protocol' and ty.startswith('Header') and 'src/v1/' in n]
    astr = [n for (tr, ty, m, n) in prog.impl_index if tr is None and m == 'addresses_str' and ty.startswith('Header') and 'src/v1/' in n]
    disp = [n for (tr, ty, m, n) in prog.impl_index if tr and tr.endswith('Display') and m == 'fmt' and ty.startswith('Header') and 'src/v1/' in n]
    if len(proto) != 1 or len(astr) != 1 or len(disp) != 1:
        raise Unsupported('v1 Header view functions not found: %r %r %r' % (proto, astr, disp))

    def run(e):
        r = base(e)
        if r.variant == 'Ok':
            h = r.fields[0]
            p = e.call_fn(proto[0], [Ref(Cell(h))], {})
            a = e.call_fn(astr[0], [Ref(Cell(h))], {})
            f = Opaque('Formatter', pieces=[])
            d = e.call_fn(disp[0], [Ref(Cell(h)), Ref(Cell(f))], {})
            e.notes.append(('views', p, a, list(f.pieces), d))
        return r
    return run


ENTRIES = {
    'str': (r'^TryFrom<&str>$', r'^Header', 'try_from'),
    'bytes': (r'^TryFrom<&\[u8\]>$', r'^Header', 'try_from'),
    'fromstr_addresses': (r'^FromStr$', r'^Addresses$', 'from_str'),
    'fromstr_header': (r'^FromStr$', r'^Header', 'from_str'),
}


def base(kind):
    """`str_long` / `bytes_long` are the same entry points as `str` / `bytes`, summarised at a larger LMAX for the
    obligations that only concern the longest lines (UNKNOWN lines of 105..107 bytes)"""
    return kind[:-5] if kind.endswith('_long') else kind


def entry_name(prog, kind):
    tr, ty, m = ENTRIES[base(kind)]
    c = [n for (itr, ity, im, n) in prog.impl_index if im == m and itr and re.search(tr, itr) and re.search(ty, ity) and 'src/v1/' in n]
    if len(c) != 1:
        raise Unsupported('entry point %s: %r' % (kind, c))
    return c[0]


def new_exec(prog, ctxs, lmax):
    ex = Exec(prog, models.dispatch)
    ex.ctxs = ctxs
    ex.lmax = lmax
    import models_it, models_v2, models_more
    ex.hooks = [models_more.hook, models_it.hook, models_v2.hook]
    return ex


def runner(prog, kind, ctx, text_valid_utf8=True):
    kind = base(kind)
    if kind == 'str_views':
        return views_runner(prog, ctx)
    name = entry_name(prog, kind)
    is_str = kind != 'bytes'

    def run(e):
        if is_str and text_valid_utf8:
            e.assume(ctx.valid_utf8_prefix(ctx.L), 'd')     # precondition of the &str type
        return e.call_fn(name, [ctx.input_str(is_str)], {})
    return run


class Path:
    __slots__ = ('script', 'items', 'pc', 'outcome', 'notes', 'idx', 'witness', 'inc', 'comp', '_neg')

    def __init__(self, script, items, outcome, notes, idx):
        self.script, self.items, self.outcome, self.notes, self.idx = script, items, outcome, notes, idx
        self.pc = [c for _, c in items]
        self._neg = None

    def neg(self, extra=None):
        """formula equivalent to `this path is NOT taken` (optionally: `... or it is taken and `extra` fails`).
        Fresh variables are existential in a path condition, so a plain Not(And(pc)) would be wrong; every
        definition ('d' item) is total and unique *in the states in which it is introduced*, hence
        not-taken == the first failing branch condition: nested  d1 & (~c1 | (d2 & (~c2 | ...)))."""
        if extra is None and self._neg is not None:
            return self._neg
        f = z3.BoolVal(False) if extra is None else z3.Not(extra)
        for kind, c in reversed(self.items):
            if kind == 'd':
                f = z3.And(c, f)
            else:
                f = z3.Or(z3.Not(c), f)
        if extra is None:
            self._neg = f
        return f

    # ---- outcome classification
    def kind(self):
        o = self.outcome
        if o[0] == 'panic':
            return 'Panic'
        v = o[1]
        if v.variant == 'Ok':
            return 'Ok'
        return 'Err'

    def err_variant(self):
        """(outer, inner) names: e.g. ('Parse','InvalidPrefix') for the byte entry, (None,'Partial') for text"""
        e = self.outcome[1].fields[0]
        if e.ty.endswith('BinaryParseError'):
            if e.variant == 'Parse':
                return ('Parse', e.fields[0].variant)
            return (e.variant, None)
        return (None, e.variant)

    def err_value(self):
        e = self.outcome[1].fields[0]
        if e.ty.endswith('BinaryParseError') and e.variant == 'Parse':
            return e.fields[0]
        return e

    def label(self):
        k = self.kind()
        if k == 'Panic':
            return 'Panic(' + self.outcome[1] + ')'
        if k == 'Ok':
            v = self.outcome[1].fields[0]
            if isinstance(v, Struct):
                return 'Ok(' + v.get('addresses').variant + ')'
            return 'Ok(' + getattr(v, 'variant', '?') + ')'
        o, i = self.err_variant()
        e = self.err_value()
        extra = ''
        if i in ('InvalidSourcePort', 'InvalidDestinationPort') and e.fields:
            p = e.fields[0]
            extra = '(None)' if p.variant == 'None' else '(Some(%s))' % p.fields[0].ekind
        return 'Err(' + (o + ':' if o else '') + (i or '') + extra + ')'


def summarize(prog, kind, ctx, scripts=None, lmax=None):
    """explore (or replay) one entry point over ctx. Returns list of Path."""
    ex = new_exec(prog, [ctx], ctx.lmax)
    ex.suffix = ctx.suffix
    run = runner(prog, kind, ctx)
    if scripts is None:
        # make sure all helper definitions exist before the base axioms are frozen
        prime(ctx)
        res = explore(ex, run, base_axioms=ctx.axioms)
    else:
        prime(ctx)
        res = explore(ex, run, scripts=scripts)
    return [Path(sc, items, out, notes, i) for i, (sc, items, out, notes) in enumerate(res)]


CACHE = os.path.join(VERIF, '.cache')
MODEL_VERSION = None


def model_version():
    global MODEL_VERSION
    if MODEL_VERSION is None:
        h = hashlib.sha256()
        d = os.path.dirname(os.path.abspath(__file__))
        for fn in ('core.py', 'models.py', 'mirparse.py', 'v1sum.py', 'models_it.py', 'models_v2.py', 'models_more.py'):
            if True:
                h.update(open(os.path.join(d, fn), 'rb').read())
        MODEL_VERSION = h.hexdigest()
    return MODEL_VERSION


def _worker(args):
    kind, lmax, prefix, budget = args
    prog = program(refresh=False)
    ctx = InputCtx(lmax)
    ex = new_exec(prog, [ctx], lmax)
    ex.suffix = ctx.suffix
    prime(ctx)
    c0, s0 = STATS['checks'], STATS['t']
    res = explore(ex, runner(prog, kind, ctx), base_axioms=ctx.axioms, prefix=prefix, budget_s=budget)
    return [r[0] for r in res], ex.leftover, STATS['checks'] - c0, STATS['t'] - s0


def discover_scripts(prog, kind, lmax, jobs=None, use_cache=True, stats=None):
    """feasible decision scripts of one entry point: parallel exploration, cached by
    sha256(MIR text, model sources, entry, LMAX). The summary itself is always rebuilt by
    replaying the scripts against the current MIR."""
    kind = base(kind)
    key = hashlib.sha256(('%s|%s|%s|%d' % (prog.mir_sha, model_version(), kind, lmax)).encode()).hexdigest()[:32]
    path = os.path.join(CACHE, 'scripts-%s.json' % key)
    if use_cache and os.path.exists(path):
        d = json.load(open(path))
        if stats is not None:
            stats.update(d.get('stats', {}), cached=True)
        return d['scripts']
    jobs = jobs or int(os.environ.get('VERIF_M_JOBS', '14'))
    t0 = time.time()
    ctx = InputCtx(lmax)
    ex = new_exec(prog, [ctx], lmax)
    ex.suffix = ctx.suffix
    prime(ctx)
    res = explore(ex, runner(prog, kind, ctx), base_axioms=ctx.axioms, split_at=4, budget_s=3.0)
    scripts = [r[0] for r in res]
    work = list(ex.leftover)
    checks, st = STATS['checks'], STATS['t']
    if work:
        import concurrent.futures as cf
        import multiprocessing as mp
        with cf.ProcessPoolExecutor(max_workers=jobs, mp_context=mp.get_context('spawn')) as pool:
            futs = {pool.submit(_worker, (kind, lmax, w, 6.0)) for w in work}
            while futs:
                done, futs = cf.wait(futs, return_when=cf.FIRST_COMPLETED)
                for f in done:
                    sc, left, c, t = f.result()
                    scripts += sc
                    checks += c
                    st += t
                    for w in left:
                        futs.add(pool.submit(_worker, (kind, lmax, w, 6.0)))
    scripts.sort()
    d = {'scripts': scripts, 'stats': {'explore_wall_s': round(time.time() - t0, 1), 'feasibility_queries': checks,
                                       'explore_solver_s': round(st, 1)}}
    if stats is not None:
        stats.update(d['stats'], cached=False)
    os.makedirs(CACHE, exist_ok=True)
    tmp = path + '.%d.tmp' % os.getpid()
    json.dump(d, open(tmp, 'w'))
    os.replace(tmp, path)
    return scripts


def prime(ctx):
    """instantiate every helper definition used by the models so that ctx.axioms is complete"""
    ctx.utf8fns()


def model_bytes(m, ctx):
    n = m.eval(ctx.L, model_completion=True).as_long()
    return bytes(m.eval(ctx.S(j), model_completion=True).as_long() for j in range(n))
