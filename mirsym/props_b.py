"""Builder properties in Engine M: C09 / C10 (call histories with unbounded payload sizes) and the
size/limit clauses of C20. The builder's own MIR is executed; Vec<u8> is a segment list (models_b)."""
import itertools, os, re, sys, time
import z3
from core import *
import models
import models_b
from models_b import Seg, VecView
import v1sum

SIG = [0x0D, 0x0A, 0x0D, 0x0A, 0x00, 0x0D, 0x0A, 0x51, 0x55, 0x49, 0x54, 0x0A]
BIGLEN = 2 ** 40


def bfn(prog, suffix):
    c = [n for n in prog.fns if n.endswith('>::' + suffix) and 'v2::builder::<impl at src/v2/builder.rs' in n and re.search(r'builder.rs:\d+:1: \d+:13>', n)]
    if len(c) != 1:
        raise Unsupported('builder fn %s: %r' % (suffix, c))
    return c[0]


class Ghost:
    def __init__(self):
        self.explicit = None      # None or z3/int value
        self.exp = Seg()          # expected bytes after the 16-byte fixed part
        self.count = 0


OPS = ['set_some', 'set_none', 'reserve', 'u8', 'u16', 'slice', 'tlv', 'tlvs', 'type', 'batch']


def do_op(e, prog, b, op, i, g):
    """one builder call of kind `op` with fresh symbolic values; returns (builder or None, err_info)"""
    F = lambda s: bfn(prog, s)
    if op == 'set_some':
        x = z3.Int('len%d' % i)
        e.assume(z3.And(x >= 0, x <= 65535))
        g.explicit = x
        return e.call_fn(F('set_length'), [b, models.Some(x)], {'T': 'std::option::Option<u16>'}), None
    if op == 'set_none':
        g.explicit = None
        return e.call_fn(F('set_length'), [b, models.NoneV()], {'T': 'std::option::Option<u16>'}), None
    if op == 'reserve':
        c = z3.Int('cap%d' % i)
        e.assume(z3.And(c >= 0, c <= BIGLEN))
        return e.call_fn(F('reserve_capacity'), [b, c], {}), None
    before = g.count
    if op == 'u8':
        x = z3.Int('b%d' % i)
        e.assume(z3.And(x >= 0, x <= 255))
        r = e.call_fn(F('write_payload'), [b, x], {'T': 'u8'})
        enc, n, over = [x], 1, False
    elif op == 'u16':
        x = z3.Int('w%d' % i)
        e.assume(z3.And(x >= 0, x <= 65535))
        r = e.call_fn(F('write_payload'), [b, x], {'T': 'u16'})
        enc, n, over = [x / 256, x % 256], 2, False
    elif op == 'type':
        r = e.call_fn(F('write_payload'), [b, Enum('v2::model::Type', 'NoOp', [])], {'T': 'v2::model::Type'})
        enc, n, over = [4], 1, False
    elif op in ('slice', 'tlv', 'tlvs', 'batch'):
        P = z3.Function('p%d' % i, z3.IntSort(), z3.IntSort())
        N = z3.Int('n%d' % i)
        e.assume(z3.And(N >= 0, N <= BIGLEN))
        s = Str(Buf('p%d' % i, fn=P, length=N), 0, N, is_str=False)
        empty = e.branch(N == 0)      # an empty slice contributes no segment (ghost mirrors that case split)
        if op == 'slice':
            r = e.call_fn(F('write_payload'), [b, s], {'T': '&[u8]'})
            enc, n, over = ([] if empty else [s]), N, N > 65535
        elif op == 'batch':
            y = z3.Int('bb%d' % i)
            e.assume(z3.And(y >= 0, y <= 255))
            # write_payloads([slice, slice2]) with a second short literal slice: batch == one at a time
            s2 = ArrSlice([y])
            r = e.call_fn(F('write_payloads'), [b, Tuple([s, s2])], {'T': '&[u8]', 'II': '[&[u8]; 2]', 'I': 'std::array::IntoIter<&[u8], 2>'})
            enc, n, over = ([y] if empty else [s, y]), N + 1, z3.Or(N > 65535, Z(before) + N > 65535)
        elif op == 'tlvs':
            # a hand-built TypeLengthValue (public fields, no length check at construction) written with write_payload
            t = z3.Int('t%d' % i)
            e.assume(z3.And(t >= 0, t <= 255))
            tv = mk_struct(prog, 'src/v2/model.rs', 'TypeLengthValue', 'v2::model::TypeLengthValue', {'kind': t, 'value': Enum(models.COW, 'Borrowed', [s])})
            r = e.call_fn(F('write_payload'), [b, tv], {'T': "v2::model::TypeLengthValue<'_>"})
            enc, n, over = [t, N / 256, N % 256] + ([] if empty else [s]), N + 3, N > 65535
        else:
            t = z3.Int('t%d' % i)
            e.assume(z3.And(t >= 0, t <= 255))
            r = e.call_fn(F('write_tlv'), [b, t, s], {'impl Into<u8>': 'u8'})
            enc, n, over = [t, N / 256, N % 256] + ([] if empty else [s]), N + 3, N > 65535
    else:
        raise Unsupported(op)
    if r.variant == 'Err':
        # "below its size limit" is read conservatively: the writer must still be below the limit (16 + 65535
        # bytes) after the fixed-size part of the encoding (3 bytes of a TLV, the whole of an integer / Type,
        # the first item of a batch); a value that crosses the limit may legitimately fail part-way
        fixed = {'u8': 1, 'u16': 2, 'type': 1, 'slice': 0, 'tlv': 3, 'tlvs': 3}.get(op)
        if op == 'batch':
            fixed = N
        over = z3.Or(Z(over) if not isinstance(over, bool) else z3.BoolVal(over), Z(before) + Z(fixed) > 65535)
        return None, ('write_err', i, op, over, before)
    # a write that SUCCEEDS with a single value above 65535 bytes is itself a violation (C09 / C20: it must be refused)
    if not (isinstance(over, bool) and over is False):
        g.over_ok = or_(getattr(g, 'over_ok', False), Z(over) if not isinstance(over, bool) else over)
    for x in enc:
        if isinstance(x, (Str, ArrSlice)):
            g.exp.push_slice(x)
        else:
            g.exp.push_bytes([x])
    g.count = add(g.count, n)
    return r.fields[0], None


_SEGI = [0]


def seg_len(a):
    n = 0
    for k, v in a:
        n = add(n, len(v) if k == 'b' else v.len())
    return n


def seg_content(a, i):
    """byte at (symbolic) position i of a normalised segment list"""
    off = 0
    parts = []
    for k, v in a:
        if k == 'b':
            for j, x in enumerate(v):
                parts.append((eq(i, add(off, j)), x))
            off = add(off, len(v))
        else:
            ln = v.len()
            parts.append((and_(le(off, i), lt(i, add(off, ln))), v.buf.at(add(v.start, sub(i, off)))))
            off = add(off, ln)
    e = z3.IntVal(-1)
    for c, x in reversed(parts):
        e = ite(c, x, e)
    return e


def seg_structural(a, b):
    """structural equality of two normalised segment lists -> formula, or None when the shapes differ"""
    if len(a) != len(b):
        return None
    cs = []
    for (k1, v1), (k2, v2) in zip(a, b):
        if k1 != k2:
            return None
        if k1 == 'b':
            if len(v1) != len(v2):
                return None
            cs += [eq(x, y) for x, y in zip(v1, v2)]
        else:
            same = v1 is v2 or (isinstance(v1, Str) and isinstance(v2, Str) and v1.buf is v2.buf and eq(v1.start, v2.start) is True and eq(v1.end, v2.end) is True)
            if not same:
                return None
    return and_(*cs)


def seg_equal(a, b):
    """equality of two normalised segment lists as a formula that is only ever used *negated* inside a violation
    query (`not equal` is existential): same shape -> bytewise formula; different shapes (e.g. bytes staged in a
    local array and written as one slice) -> lengths equal and no position i (a fresh variable, existential in the
    negated query) at which the contents differ."""
    st = seg_structural(a, b)
    if st is not None:
        return st
    _SEGI[0] += 1
    i = z3.Int('segi!%d' % _SEGI[0])
    la, lb = seg_len(a), seg_len(b)
    differ = and_(le(0, i), lt(i, la), ne(seg_content(a, i), seg_content(b, i)))
    return and_(eq(la, lb), not_(differ))


def run_history(e, prog, ctor, ops):
    vc = z3.Int('vc')
    afp = z3.Int('afp')
    e.assume(z3.And(vc >= 0, vc <= 255, afp >= 0, afp <= 255))
    g = Ghost()
    if ctor == 'new':
        b = e.call_fn(bfn(prog, 'new'), [vc, afp], {})
        want_afp = afp
    elif ctor == 'unix':
        # both 108-byte paths: constant fill with three symbolic bytes each (first, middle, last position)
        sv = [z3.Int('us%d' % k) for k in range(3)] + [z3.Int('ud%d' % k) for k in range(3)]
        e.assume(z3.And([z3.And(o >= 0, o <= 255) for o in sv]))
        s = [0x41] * 108
        d = [0x42] * 108
        s[0], s[53], s[107] = sv[0], sv[1], sv[2]
        d[0], d[54], d[107] = sv[3], sv[4], sv[5]
        src = prog.src('src/v2/model.rs')
        mm = re.search(r'pub struct Unix \{(.*?)\}', src, re.S)
        order = re.findall(r'pub (\w+):', mm.group(1))
        vals = {'source': Tuple(list(s)), 'destination': Tuple(list(d))}
        ux = Struct('v2::model::Unix', {})
        ux.fields = {i: vals[n] for i, n in enumerate(order)}
        ux.names = {n: i for i, n in enumerate(order)}
        addrs = Enum('v2::model::Addresses', 'Unix', [ux])
        k = e.choose(3)
        proto = Enum('v2::model::Protocol', ['Unspecified', 'Stream', 'Datagram'][k], [])
        b = e.call_fn(bfn(prog, 'with_addresses'), [vc, proto, addrs], {'T': 'v2::model::Addresses'})
        want_afp = 0x30 + k
        for o in s + d:
            g.exp.push_bytes([o])
        g.count = 216
    else:
        octs = [z3.Int('ab%d' % k) for k in range(12)]
        e.assume(z3.And([z3.And(o >= 0, o <= 255) for o in octs]))
        sp, dp = octs[8] * 256 + octs[9], octs[10] * 256 + octs[11]
        ip = Struct('ip::IPv4', {})
        src = prog.src('src/ip.rs')
        mm = re.search(r'pub struct IPv4 \{(.*?)\}', src, re.S)
        order = re.findall(r'pub (\w+):', mm.group(1))
        vals = {'source_address': Opaque('ip', fam=4, val=None, octs=octs[0:4]), 'source_port': sp,
                'destination_address': Opaque('ip', fam=4, val=None, octs=octs[4:8]), 'destination_port': dp}
        ip.fields = {i: vals[n] for i, n in enumerate(order)}
        ip.names = {n: i for i, n in enumerate(order)}
        addrs = Enum('v2::model::Addresses', 'IPv4', [ip])
        pr = z3.Int('proto')
        e.assume(z3.And(pr >= 0, pr <= 2))
        # Protocol value with a symbolic discriminant is not supported by the enum model: enumerate the three
        k = e.choose(3)
        proto = Enum('v2::model::Protocol', ['Unspecified', 'Stream', 'Datagram'][k], [])
        b = e.call_fn(bfn(prog, 'with_addresses'), [vc, proto, addrs], {'T': 'v2::model::Addresses'})
        want_afp = 0x10 + k
        for o in octs:
            g.exp.push_bytes([o])
        g.count = 12
    for i, op in enumerate(ops):
        b, err = do_op(e, prog, b, op, i, g)
        if err:
            return ('write_err', err), g, vc, want_afp
    r = e.call_fn(bfn(prog, 'build'), [b], {})
    return ('build', r), g, vc, want_afp


def check_history(prog, ctor, ops, props):
    """explore one history shape; returns list of (label, violating formula conj, pc, model->summary)"""
    ctx = models.InputCtx(4)
    ex = v1sum.new_exec(prog, [ctx], 4)
    ex.suffix = ''
    import models_v2 as _mv2, models_it as _mit, models_more as _mm
    ex.hooks = [models_b.hook, _mm.hook, _mv2.hook, _mit.hook]
    out = {}

    def run(e):
        o, g, vc, want_afp = run_history(e, prog, ctor, ops)
        e.notes.append(('hist', o, g, vc, want_afp))
        return o[0]
    res = explore(ex, run, base_axioms=[])
    viol = []
    nq = 0
    st = 0.0
    for sc, items, outc, notes in res:
        pc = [c for _, c in items]
        if outc[0] == 'panic':
            bad = {'C09': z3.BoolVal(True), 'C10': z3.BoolVal(True)}
            desc = 'panic: %s' % outc[1]
            g = None
        else:
            _, o, g, vc, want_afp = [x for x in notes if x[0] == 'hist'][0]
            bad = {}
            desc = ''
            explicit = g.explicit
            if o[0] == 'write_err':
                _, i, op, over, before = o[1]
                # a write may only fail for an oversized value or on a writer already above its size limit
                bad['C20'] = not_(or_(over, gt(before, 65535)))
                desc = 'call %d (%s) failed' % (i, op)
            else:
                r = o[1]
                if r.variant == 'Ok':
                    v = r.fields[0]
                    segs = v.norm()
                    head_ok = bool(segs) and segs[0][0] == 'b' and len(segs[0][1]) >= 16
                    if not head_ok:
                        bad['C10'] = z3.BoolVal(True)
                        bad['C09'] = z3.BoolVal(True)
                    else:
                        first = segs[0][1]
                        field = add(mul(first[14], 256), first[15])
                        want = explicit if explicit is not None else g.count
                        bad['C09'] = or_(ne(field, want), (gt(g.count, 65535) if explicit is None else False))
                        fixed = and_(*([eq(first[k], SIG[k]) for k in range(12)] + [eq(first[12], vc), eq(first[13], want_afp)]))
                        rest = [('b', first[16:])] + segs[1:]
                        rest = Seg(rest).norm()
                        body = seg_equal(rest, g.exp.norm())
                        bad['C10'] = not_(and_(fixed, body, eq(v.length(), add(16, g.count))))
                    desc = 'build succeeded'
                else:
                    bad['C09'] = not_(and_(explicit is None, gt(g.count, 65535)))
                    desc = 'build failed'
        for prop, f in bad.items():
            if prop not in props:
                continue
            f = norm(f)
            nq += 1
            if f is False:
                continue
            s = z3.Solver()
            s.set('timeout', 120000)
            for c in pc:
                s.add(c)
            s.add(Z(f))
            t0 = time.time()
            r = s.check()
            st += time.time() - t0
            if r == z3.sat:
                m = s.model()
                vals = {str(d): str(m[d]) for d in m.decls() if d.arity() == 0}
                viol.append((prop, desc, vals))
            elif r != z3.unsat:
                viol.append((prop, 'solver unknown', {}))
    return len(res), nq, st, viol


def history_spec(ctor, ops, m, proto_k):
    def val(name):
        v = m.eval(z3.Int(name), model_completion=True)
        return v.as_long()
    if ctor == 'unix':
        parts = ['unix:%d:%d:%s' % (val('vc'), proto_k, ''.join('%02x' % val(n) for n in ('us0', 'us1', 'us2', 'ud0', 'ud1', 'ud2')))]
    elif ctor == 'new':
        parts = ['new:%d:%d' % (val('vc'), val('afp'))]
    else:
        parts = ['ipv4:%d:%d:%s' % (val('vc'), proto_k, ''.join('%02x' % val('ab%d' % k) for k in range(12)))]
    for i, op in enumerate(ops):
        if op == 'set_some':
            parts.append('setsome:%d' % val('len%d' % i))
        elif op == 'set_none':
            parts.append('setnone')
        elif op == 'reserve':
            parts.append('reserve:%d' % min(val('cap%d' % i), 1 << 20))
        elif op == 'u8':
            parts.append('u8:%d' % val('b%d' % i))
        elif op == 'u16':
            parts.append('u16:%d' % val('w%d' % i))
        elif op == 'type':
            parts.append('type')
        elif op == 'slice':
            parts.append('slice:%d' % val('n%d' % i))
        elif op == 'tlv':
            parts.append('tlv:%d:%d' % (val('t%d' % i), val('n%d' % i)))
        elif op == 'tlvs':
            parts.append('tlvs:%d:%d' % (val('t%d' % i), val('n%d' % i)))
        elif op == 'batch':
            parts.append('batch:%d:%d' % (val('n%d' % i), val('bb%d' % i)))
    return ';'.join(parts)


def builder_modular(prog, props, kmax, label):
    """all call sequences of length <= kmax over the menu OPS, after either constructor, ended by build"""
    recs = []
    npaths = 0
    t0 = time.time()
    hist = 0
    for k in range(0, kmax + 1):
        for ops in itertools.product(OPS, repeat=k):
            # reserve / set_none as the only differences from a shorter history add nothing at k = kmax: keep all for k < kmax
            for ctor in (('new', 'ipv4', 'unix') if k <= 1 else ('new', 'ipv4')):
                hist += 1
                n, nq, st, viol = check_history2(prog, ctor, list(ops), props)
                npaths += n
                rec = {'label': '%s:%s:%s' % (label, ctor, '.'.join(ops) or 'empty'), 'task': [label, ctor, hist], 'solver_s': st, 'status': 'unsat', 'nq': nq}
                if viol:
                    prop, desc, spec = viol[0]
                    rec['status'] = 'sat' if spec else 'unknown'
                    if spec:
                        rec['cex'] = {'runs': [['v2_builder', spec.encode().hex()]], 'violated_if': 'builder_' + prop.lower(),
                                      'summary': '%s: builder history `%s` (%s)' % (prop, spec, desc)}
                    else:
                        rec['detail'] = desc
                recs.append(rec)
    return hist, npaths, recs


def check_history2(prog, ctor, ops, props):
    """like check_history but returns violations as replayable history specs"""
    ctx = models.InputCtx(4)
    ex = v1sum.new_exec(prog, [ctx], 4)
    ex.suffix = ''
    import models_v2 as _mv2, models_it as _mit, models_more as _mm
    ex.hooks = [models_b.hook, _mm.hook, _mv2.hook, _mit.hook]

    def run(e):
        o, g, vc, want_afp = run_history(e, prog, ctor, ops)
        e.notes.append(('hist', o, g, vc, want_afp))
        return o[0]
    res = explore(ex, run, base_axioms=[])
    viol = []
    nq = 0
    st = 0.0
    for sc, items, outc, notes in res:
        pc = [c for _, c in items]
        proto_k = 0
        if ctor in ('ipv4', 'unix'):
            ks = [d for d in sc if isinstance(d, int) and not isinstance(d, bool)]
            proto_k = ks[0] if ks else 0
        bad = history_badness(outc, notes)
        for prop, (f, desc) in bad.items():
            if prop not in props:
                continue
            f = norm(f)
            nq += 1
            if f is False:
                continue
            s = z3.Solver()
            s.set('timeout', 120000)
            for c in pc:
                s.add(c)
            s.add(Z(f))
            t0 = time.time()
            r = s.check()
            if r == z3.sat:
                # realisable sizes for the native replay
                s.push()
                for i, op in enumerate(ops):
                    if op in ('slice', 'tlv', 'tlvs', 'batch'):
                        s.add(z3.Int('n%d' % i) <= 200000)
                r2 = s.check()
                if r2 == z3.sat:
                    viol.append((prop, desc, history_spec(ctor, ops, s.model(), proto_k)))
                else:
                    viol.append((prop, desc + ' (only with payloads larger than 200000 bytes: not replayed)', None))
                s.pop()
            elif r != z3.unsat:
                viol.append((prop, 'solver unknown', None))
            st += time.time() - t0
    return len(res), nq, st, viol


def history_badness(outc, notes):
    """{property: (violation formula, description)} for one explored path of a history"""
    bad = _history_badness(outc, notes)
    if outc[0] != 'panic':
        g = [x for x in notes if x[0] == 'hist'][0][2]
        ov = getattr(g, 'over_ok', False)
        if ov is not False:
            for prop in ('C09', 'C20'):
                f0, d0 = bad.get(prop, (False, ''))
                bad[prop] = (or_(f0, ov), (d0 + '; or ' if d0 else '') + 'a write accepted a single value of more than 65535 bytes')
    return bad


def _history_badness(outc, notes):
    if outc[0] == 'panic':
        t = z3.BoolVal(True)
        return {'C09': (t, 'panic: %s' % outc[1]), 'C10': (t, 'panic: %s' % outc[1]), 'C20': (t, 'panic: %s' % outc[1])}
    _, o, g, vc, want_afp = [x for x in notes if x[0] == 'hist'][0]
    bad = {}
    explicit = g.explicit
    if o[0] == 'write_err':
        _, i, op, over, before = o[1]
        bad['C20'] = (not_(or_(over, gt(before, 65535))), 'call %d (%s) failed although the value fits and the writer is below its limit' % (i, op))
        return bad
    r = o[1]
    if r.variant == 'Ok':
        v = r.fields[0]
        segs = v.norm()
        if not (segs and segs[0][0] == 'b' and len(segs[0][1]) >= 16):
            t = z3.BoolVal(True)
            return {'C09': (t, 'built buffer has no 16-byte fixed part'), 'C10': (t, 'built buffer has no 16-byte fixed part')}
        first = segs[0][1]
        field = add(mul(first[14], 256), first[15])
        want = explicit if explicit is not None else g.count
        bad['C09'] = (or_(ne(field, want), (gt(g.count, 65535) if explicit is None else False)),
                      'build succeeded with a length field that is neither the explicit length in force nor the payload size (or a payload > 65535 without override)')
        fixed = and_(*([eq(first[k], SIG[k]) for k in range(12)] + [eq(first[12], vc), eq(first[13], want_afp)]))
        rest = Seg([('b', first[16:])] + segs[1:]).norm()
        body = seg_equal(rest, g.exp.norm())
        bad['C10'] = (not_(and_(fixed, body, eq(v.length(), add(16, g.count)))), 'built bytes are not signature, control bytes, length, address block and the payload encodings in call order')
    else:
        bad['C09'] = (not_(and_(explicit is None, gt(g.count, 65535))), 'build failed although an explicit length is in force or the payload fits in 65535 bytes')
    return bad


# ------------------------------------------------------------------ C20: every WriteToHeader impl, directly (returned count, appended bytes, to_bytes, refusal)
TYPE_CODES = {'ALPN': 0x01, 'Authority': 0x02, 'CRC32C': 0x03, 'NoOp': 0x04, 'UniqueId': 0x05, 'SSL': 0x20, 'SSLVersion': 0x21, 'SSLCommonName': 0x22,
              'SSLCipher': 0x23, 'SSLSignatureAlgorithm': 0x24, 'SSLKeyAlgorithm': 0x25, 'NetworkNamespace': 0x30}
INTS = ['u8', 'u16', 'u32', 'u64', 'u128', 'usize', 'i8', 'i16', 'i32', 'i64', 'i128', 'isize']
WT = 'v2::builder::WriteToHeader'
LIMIT = 65535 + 16


def mk_struct(prog, rel, name, ty, vals):
    import props_v2
    order = props_v2.struct_order(prog, rel, name)
    st = Struct(ty, {})
    st.fields = {i: vals[n] for i, n in enumerate(order)}
    st.names = {n: i for i, n in enumerate(order)}
    return st


def sym_slice(e, name):
    P = z3.Function('q_' + name, z3.IntSort(), z3.IntSort())
    N = z3.Int('qn_' + name)
    e.assume(z3.And(N >= 0, N <= BIGLEN))
    return Str(Buf('q_' + name, fn=P, length=N), 0, N, is_str=False), N


def value_cases(prog):
    """[(label, maker)]: maker(e) -> (self type string, value to pass as &self (already a reference where needed),
    expected encoding as list of bytes/slices, oversize formula, fixed-size part in bytes)"""
    cases = []
    for t in INTS:
        def mk(e, t=t):
            lo, hi = int_range(t)
            x = z3.Int('x_' + t)
            e.assume(z3.And(x >= lo, x <= hi))
            n = INT_BITS[t] // 8
            u = z3.If(x < 0, x + 2 ** INT_BITS[t], x) if lo < 0 else x
            return t, Ref(Cell(x)), [(Z(u) / (256 ** i)) % 256 for i in range(n - 1, -1, -1)], False, n
        cases.append(('int_' + t, mk))

    def mk_type(e):
        names = sorted(TYPE_CODES)
        k = e.choose(len(names))
        e.notes.append(('info', 'variant=' + names[k]))
        return 'v2::model::Type', Ref(Cell(Enum('v2::model::Type', names[k], []))), [TYPE_CODES[names[k]]], False, 1
    cases.append(('type', mk_type))

    def mk_addr(e):
        k = e.choose(4)
        e.notes.append(('info', 'family=%d' % k))
        if k == 0:
            return 'v2::model::Addresses', Ref(Cell(Enum('v2::model::Addresses', 'Unspecified', []))), [], False, 0
        if k in (1, 2):
            n = 4 if k == 1 else 16
            octs = [z3.Int('ao%d_%d' % (k, i)) for i in range(2 * n + 4)]
            e.assume(z3.And([z3.And(o >= 0, o <= 255) for o in octs]))
            vals = {'source_address': Opaque('ip', fam=4 if k == 1 else 6, val=None, octs=octs[0:n]), 'destination_address': Opaque('ip', fam=4 if k == 1 else 6, val=None, octs=octs[n:2 * n]),
                    'source_port': octs[2 * n] * 256 + octs[2 * n + 1], 'destination_port': octs[2 * n + 2] * 256 + octs[2 * n + 3]}
            nm = 'IPv4' if k == 1 else 'IPv6'
            ip = mk_struct(prog, 'src/ip.rs', nm, 'ip::' + nm, vals)
            return 'v2::model::Addresses', Ref(Cell(Enum('v2::model::Addresses', nm, [ip]))), list(octs), False, 2 * n + 4
        sv = [z3.Int('ux%d' % i) for i in range(6)]
        e.assume(z3.And([z3.And(o >= 0, o <= 255) for o in sv]))
        s, d = [0x41] * 108, [0x42] * 108
        s[0], s[53], s[107] = sv[0], sv[1], sv[2]
        d[0], d[54], d[107] = sv[3], sv[4], sv[5]
        ux = mk_struct(prog, 'src/v2/model.rs', 'Unix', 'v2::model::Unix', {'source': Tuple(list(s)), 'destination': Tuple(list(d))})
        return 'v2::model::Addresses', Ref(Cell(Enum('v2::model::Addresses', 'Unix', [ux]))), s + d, False, 216
    cases.append(('addresses', mk_addr))

    def mk_tlv(e, form):
        s, N = sym_slice(e, 'tlv')
        empty = e.branch(N == 0)
        enc_val = [] if empty else [s]
        if form == 'tlv':
            t = z3.Int('tk')
            e.assume(z3.And(t >= 0, t <= 255))
            v = mk_struct(prog, 'src/v2/model.rs', 'TypeLengthValue', 'v2::model::TypeLengthValue', {'kind': t, 'value': Enum(models.COW, 'Borrowed', [s])})
            return "v2::model::TypeLengthValue<'_>", Ref(Cell(v)), [t, N / 256, N % 256] + enc_val, N > 65535, 3
        if form == 'pair_u8':
            t = z3.Int('tk')
            e.assume(z3.And(t >= 0, t <= 255))
            return '(u8, &[u8])', Ref(Cell(Tuple([t, s]))), [t, N / 256, N % 256] + enc_val, N > 65535, 3
        names = sorted(TYPE_CODES)
        k = e.choose(len(names))
        e.notes.append(('info', 'variant=' + names[k]))
        return '(v2::model::Type, &[u8])', Ref(Cell(Tuple([Enum('v2::model::Type', names[k], []), s]))), [TYPE_CODES[names[k]], N / 256, N % 256] + enc_val, N > 65535, 3
    for form in ('tlv', 'pair_u8', 'pair_type'):
        cases.append((form, lambda e, form=form: mk_tlv(e, form)))

    def mk_section(e):
        s, N = sym_slice(e, 'sec')
        empty = e.branch(N == 0)
        o = z3.Int('sec_off')
        e.assume(z3.And(o >= 0, o <= N))
        v = mk_struct(prog, 'src/v2/model.rs', 'TypeLengthValues', 'v2::model::TypeLengthValues', {'bytes': s, 'offset': o})
        return "v2::model::TypeLengthValues<'_>", Ref(Cell(v)), ([] if empty else [s]), False, 0
    cases.append(('section', mk_section))

    def mk_slice(e, byref):
        s, N = sym_slice(e, 'sl')
        empty = e.branch(N == 0)
        if byref:
            return '&[u8]', Ref(Cell(s)), ([] if empty else [s]), N > 65535, 0
        return '[u8]', s, ([] if empty else [s]), N > 65535, 0
    cases.append(('slice', lambda e: mk_slice(e, False)))
    cases.append(('ref_slice', lambda e: mk_slice(e, True)))
    return cases


def c20_write_to(prog, label='c20_write_to'):
    """every WriteToHeader impl on a writer holding an arbitrary prefix of P <= 65551 bytes (symbolic length and
    content): Ok(n) => n = |encoding| and contents = prefix ++ encoding; oversize value => Err and nothing written;
    a value that fits with the writer still below its limit after the fixed-size part => not Err; to_bytes = encoding."""
    import props_v2
    recs = []
    npaths = 0
    for lab, maker in value_cases(prog):
        ex = v1sum.new_exec(prog, [], 0)
        ex.suffix = ''
        import models_v2 as _m2, models_it as _mit, models_more as _mm
        ex.hooks = [models_b.hook, _mm.hook, _m2.hook, _mit.hook]

        def run(e):
            ty, ref, enc, over, fixed = maker(e)
            pre, P = sym_slice(e, 'pre')
            e.assume(P <= LIMIT)
            pempty = e.branch(P == 0)
            seg = Seg([] if pempty else [('s', pre)])
            w = mk_struct(prog, 'src/v2/builder.rs', 'Writer', 'v2::builder::Writer', {'bytes': seg})
            wc = Cell(w)
            r = models.dispatch(e, '<%s as %s>::write_to' % (ty, WT), [ref, Ref(wc)], {'generics': {}})
            tb = e.call_fn('v2::builder::WriteToHeader::to_bytes', [ref], {'Self': ty})
            e.notes.append(('w', ty, enc, over, fixed, pre, P, pempty, wc.v.get('bytes'), r, tb))
            return r
        res = explore(ex, run, base_axioms=[])
        for i, (sc, items, out, notes) in enumerate(res):
            npaths += 1
            pc = [c for _, c in items]
            rec_label = '%s:%s#%d' % (label, lab, i)
            if out[0] == 'panic':
                bad, desc = z3.BoolVal(True), 'panic: %s' % out[1]
            else:
                _, ty, enc, over, fixed, pre, P, pempty, after, r, tb = [n for n in notes if n[0] == 'w'][0]
                exp = Seg([] if pempty else [('s', pre)])
                encseg = Seg()
                total = 0
                for x in enc:
                    if isinstance(x, Str):
                        exp.push_slice(x)
                        encseg.push_slice(x)
                        total = add(total, x.len())
                    else:
                        exp.push_bytes([x])
                        encseg.push_bytes([x])
                        total = add(total, 1)
                overf = Z(over) if not isinstance(over, bool) else z3.BoolVal(over)
                if r.variant == 'Ok':
                    good = and_(not_(overf) if not isinstance(over, bool) else (not over), eq(r.fields[0], total), seg_equal(after.norm(), exp.norm()))
                    desc = 'write_to returned Ok'
                else:
                    # refusal of an oversize value must leave the writer untouched; any other failure is only legitimate
                    # when the writer is no longer below its limit after the fixed-size part of the encoding
                    untouched = seg_equal(after.norm(), Seg([] if pempty else [('s', pre)]).norm())
                    good = or_(and_(overf, untouched), and_(not_(overf), gt(add(P, fixed), LIMIT)))
                    desc = 'write_to returned Err'
                # to_bytes: the same encoding from an empty writer (oversize => Err)
                if tb.variant == 'Ok':
                    tgood = and_(not_(overf), seg_equal(tb.fields[0].norm(), encseg.norm()))
                else:
                    tgood = overf
                bad = not_(and_(good, tgood))
                bad = z3.BoolVal(bad) if isinstance(bad, bool) else bad
                desc += ' / to_bytes %s' % tb.variant
            s = z3.Solver()
            s.set('timeout', 120000)
            for c in pc:
                s.add(c)
            s.add(bad)
            t0 = time.time()
            rr = s.check()
            rec = {'label': rec_label, 'task': [label, lab, i], 'solver_s': time.time() - t0, 'status': 'unsat'}
            if rr == z3.sat:
                m = s.model()
                vals = {str(d): str(m[d]) for d in m.decls() if d.arity() == 0}
                rec['status'] = 'sat'
                vals2 = dict(vals)
                for nn in notes:
                    if nn[0] == 'info':
                        kk, vv = nn[1].split('=')
                        vals2[kk] = vv
                # sizes the native replay can allocate
                s.push()
                for nm in ('qn_pre', 'qn_tlv', 'qn_sec', 'qn_sl'):
                    s.add(z3.Int(nm) <= 200000)
                if s.check() == z3.sat:
                    m = s.model()
                    for d in m.decls():
                        if d.arity() == 0:
                            vals2[str(d)] = str(m[d])
                s.pop()
                rec['cex'] = {'runs': [['v2_write_to', ('%s;%s' % (lab, ';'.join('%s=%s' % kv for kv in sorted(vals2.items()) if not kv[0].startswith('k!')))).encode().hex()]],
                              'violated_if': 'write_to', 'summary': 'C20: %s impl (%s): %s with %s' % (lab, ty if out[0] != 'panic' else '', desc, {k: v for k, v in vals.items() if k.startswith(('qn_', 'x_', 'sec_'))})}
            elif rr != z3.unsat:
                rec['status'] = 'unknown'
            recs.append(rec)
    return npaths, 0, recs
