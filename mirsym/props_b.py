"""Builder properties in Engine M: C09 / C10 (call histories with unbounded payload sizes) and the
size/limit clauses of C20. The builder's own MIR is executed; Vec<u8> is a segment list (models_b)."""
import itertools, os, re, sys, time
import z3
from core import *
import models
import models_b
from models_b import Seg, VecView
import v1sum

SIG = [0x0D, 0x0A, 0x0D, 0x0A, 0x00, 0x0D, 0x0A, 0x51, 0x55, 0x49, 0x54, 0x0A]
BIGLEN = 2 ** 40


def bfn(prog, suffix):
    c = [n for n in prog.fns if n.endswith('>::' + suffix) and 'v2::builder::<impl at src/v2/builder.rs' in n and re.search(r'builder.rs:\d+:1: \d+:13>', n)]
    if len(c) != 1:
        raise Unsupported('builder fn %s: %r' % (suffix, c))
    return c[0]


class Ghost:
    def __init__(self):
        self.explicit = None      # None or z3/int value
        self.exp = Seg()          # expected bytes after the 16-byte fixed part
        self.count = 0


OPS = ['set_some', 'set_none', 'reserve', 'u8', 'u16', 'slice', 'tlv', 'type', 'batch']


def do_op(e, prog, b, op, i, g):
    """one builder call of kind `op` with fresh symbolic values; returns (builder or None, err_info)"""
    F = lambda s: bfn(prog, s)
    if op == 'set_some':
        x = z3.Int('len%d' % i)
        e.assume(z3.And(x >= 0, x <= 65535))
        g.explicit = x
        return e.call_fn(F('set_length'), [b, models.Some(x)], {'T': 'std::option::Option<u16>'}), None
    if op == 'set_none':
        g.explicit = None
        return e.call_fn(F('set_length'), [b, models.NoneV()], {'T': 'std::option::Option<u16>'}), None
    if op == 'reserve':
        c = z3.Int('cap%d' % i)
        e.assume(z3.And(c >= 0, c <= BIGLEN))
        return e.call_fn(F('reserve_capacity'), [b, c], {}), None
    before = g.count
    if op == 'u8':
        x = z3.Int('b%d' % i)
        e.assume(z3.And(x >= 0, x <= 255))
        r = e.call_fn(F('write_payload'), [b, x], {'T': 'u8'})
        enc, n, over = [x], 1, False
    elif op == 'u16':
        x = z3.Int('w%d' % i)
        e.assume(z3.And(x >= 0, x <= 65535))
        r = e.call_fn(F('write_payload'), [b, x], {'T': 'u16'})
        enc, n, over = [x / 256, x % 256], 2, False
    elif op == 'type':
        r = e.call_fn(F('write_payload'), [b, Enum('v2::model::Type', 'NoOp', [])], {'T': 'v2::model::Type'})
        enc, n, over = [4], 1, False
    elif op in ('slice', 'tlv', 'batch'):
        P = z3.Function('p%d' % i, z3.IntSort(), z3.IntSort())
        N = z3.Int('n%d' % i)
        e.assume(z3.And(N >= 0, N <= BIGLEN))
        s = Str(Buf('p%d' % i, fn=P, length=N), 0, N, is_str=False)
        empty = e.branch(N == 0)      # an empty slice contributes no segment (ghost mirrors that case split)
        if op == 'slice':
            r = e.call_fn(F('write_payload'), [b, s], {'T': '&[u8]'})
            enc, n, over = ([] if empty else [s]), N, N > 65535
        elif op == 'batch':
            y = z3.Int('bb%d' % i)
            e.assume(z3.And(y >= 0, y <= 255))
            # write_payloads([slice, slice2]) with a second short literal slice: batch == one at a time
            s2 = ArrSlice([y])
            r = e.call_fn(F('write_payloads'), [b, Tuple([s, s2])], {'T': '&[u8]', 'II': '[&[u8]; 2]', 'I': 'std::array::IntoIter<&[u8], 2>'})
            enc, n, over = ([y] if empty else [s, y]), N + 1, z3.Or(N > 65535, Z(before) + N > 65535)
        else:
            t = z3.Int('t%d' % i)
            e.assume(z3.And(t >= 0, t <= 255))
            r = e.call_fn(F('write_tlv'), [b, t, s], {'impl Into<u8>': 'u8'})
            enc, n, over = [t, N / 256, N % 256] + ([] if empty else [s]), N + 3, N > 65535
    else:
        raise Unsupported(op)
    if r.variant == 'Err':
        # "below its size limit" is read conservatively: the writer must still be below the limit (16 + 65535
        # bytes) after the fixed-size part of the encoding (3 bytes of a TLV, the whole of an integer / Type,
        # the first item of a batch); a value that crosses the limit may legitimately fail part-way
        fixed = {'u8': 1, 'u16': 2, 'type': 1, 'slice': 0, 'tlv': 3}.get(op)
        if op == 'batch':
            fixed = N
        over = z3.Or(Z(over) if not isinstance(over, bool) else z3.BoolVal(over), Z(before) + Z(fixed) > 65535)
        return None, ('write_err', i, op, over, before)
    for x in enc:
        if isinstance(x, (Str, ArrSlice)):
            g.exp.push_slice(x)
        else:
            g.exp.push_bytes([x])
    g.count = add(g.count, n)
    return r.fields[0], None


def seg_equal(a, b):
    """structural equality of two normalised segment lists -> formula (False when shapes differ)"""
    if len(a) != len(b):
        return False
    cs = []
    for (k1, v1), (k2, v2) in zip(a, b):
        if k1 != k2:
            return False
        if k1 == 'b':
            if len(v1) != len(v2):
                return False
            cs += [eq(x, y) for x, y in zip(v1, v2)]
        else:
            same = v1 is v2 or (isinstance(v1, Str) and isinstance(v2, Str) and v1.buf is v2.buf and eq(v1.start, v2.start) is True and eq(v1.end, v2.end) is True)
            if not same:
                return False
    return and_(*cs)


def run_history(e, prog, ctor, ops):
    vc = z3.Int('vc')
    afp = z3.Int('afp')
    e.assume(z3.And(vc >= 0, vc <= 255, afp >= 0, afp <= 255))
    g = Ghost()
    if ctor == 'new':
        b = e.call_fn(bfn(prog, 'new'), [vc, afp], {})
        want_afp = afp
    elif ctor == 'unix':
        # both 108-byte paths: constant fill with three symbolic bytes each (first, middle, last position)
        sv = [z3.Int('us%d' % k) for k in range(3)] + [z3.Int('ud%d' % k) for k in range(3)]
        e.assume(z3.And([z3.And(o >= 0, o <= 255) for o in sv]))
        s = [0x41] * 108
        d = [0x42] * 108
        s[0], s[53], s[107] = sv[0], sv[1], sv[2]
        d[0], d[54], d[107] = sv[3], sv[4], sv[5]
        src = prog.src('src/v2/model.rs')
        mm = re.search(r'pub struct Unix \{(.*?)\}', src, re.S)
        order = re.findall(r'pub (\w+):', mm.group(1))
        vals = {'source': Tuple(list(s)), 'destination': Tuple(list(d))}
        ux = Struct('v2::model::Unix', {})
        ux.fields = {i: vals[n] for i, n in enumerate(order)}
        ux.names = {n: i for i, n in enumerate(order)}
        addrs = Enum('v2::model::Addresses', 'Unix', [ux])
        k = e.choose(3)
        proto = Enum('v2::model::Protocol', ['Unspecified', 'Stream', 'Datagram'][k], [])
        b = e.call_fn(bfn(prog, 'with_addresses'), [vc, proto, addrs], {'T': 'v2::model::Addresses'})
        want_afp = 0x30 + k
        for o in s + d:
            g.exp.push_bytes([o])
        g.count = 216
    else:
        octs = [z3.Int('ab%d' % k) for k in range(12)]
        e.assume(z3.And([z3.And(o >= 0, o <= 255) for o in octs]))
        sp, dp = octs[8] * 256 + octs[9], octs[10] * 256 + octs[11]
        ip = Struct('ip::IPv4', {})
        src = prog.src('src/ip.rs')
        mm = re.search(r'pub struct IPv4 \{(.*?)\}', src, re.S)
        order = re.findall(r'pub (\w+):', mm.group(1))
        vals = {'source_address': Opaque('ip', fam=4, val=None, octs=octs[0:4]), 'source_port': sp,
                'destination_address': Opaque('ip', fam=4, val=None, octs=octs[4:8]), 'destination_port': dp}
        ip.fields = {i: vals[n] for i, n in enumerate(order)}
        ip.names = {n: i for i, n in enumerate(order)}
        addrs = Enum('v2::model::Addresses', 'IPv4', [ip])
        pr = z3.Int('proto')
        e.assume(z3.And(pr >= 0, pr <= 2))
        # Protocol value with a symbolic discriminant is not supported by the enum model: enumerate the three
        k = e.choose(3)
        proto = Enum('v2::model::Protocol', ['Unspecified', 'Stream', 'Datagram'][k], [])
        b = e.call_fn(bfn(prog, 'with_addresses'), [vc, proto, addrs], {'T': 'v2::model::Addresses'})
        want_afp = 0x10 + k
        for o in octs:
            g.exp.push_bytes([o])
        g.count = 12
    for i, op in enumerate(ops):
        b, err = do_op(e, prog, b, op, i, g)
        if err:
            return ('write_err', err), g, vc, want_afp
    r = e.call_fn(bfn(prog, 'build'), [b], {})
    return ('build', r), g, vc, want_afp


def check_history(prog, ctor, ops, props):
    """explore one history shape; returns list of (label, violating formula conj, pc, model->summary)"""
    ctx = models.InputCtx(4)
    ex = v1sum.new_exec(prog, [ctx], 4)
    ex.suffix = ''
    ex.hooks = [models_b.hook]
    out = {}

    def run(e):
        o, g, vc, want_afp = run_history(e, prog, ctor, ops)
        e.notes.append(('hist', o, g, vc, want_afp))
        return o[0]
    res = explore(ex, run, base_axioms=[])
    viol = []
    nq = 0
    st = 0.0
    for sc, items, outc, notes in res:
        pc = [c for _, c in items]
        if outc[0] == 'panic':
            bad = {'C09': z3.BoolVal(True), 'C10': z3.BoolVal(True)}
            desc = 'panic: %s' % outc[1]
            g = None
        else:
            _, o, g, vc, want_afp = [x for x in notes if x[0] == 'hist'][0]
            bad = {}
            desc = ''
            explicit = g.explicit
            if o[0] == 'write_err':
                _, i, op, over, before = o[1]
                # a write may only fail for an oversized value or on a writer already above its size limit
                bad['C20'] = not_(or_(over, gt(before, 65535)))
                desc = 'call %d (%s) failed' % (i, op)
            else:
                r = o[1]
                if r.variant == 'Ok':
                    v = r.fields[0]
                    segs = v.norm()
                    head_ok = bool(segs) and segs[0][0] == 'b' and len(segs[0][1]) >= 16
                    if not head_ok:
                        bad['C10'] = z3.BoolVal(True)
                        bad['C09'] = z3.BoolVal(True)
                    else:
                        first = segs[0][1]
                        field = add(mul(first[14], 256), first[15])
                        want = explicit if explicit is not None else g.count
                        bad['C09'] = or_(ne(field, want), (gt(g.count, 65535) if explicit is None else False))
                        fixed = and_(*([eq(first[k], SIG[k]) for k in range(12)] + [eq(first[12], vc), eq(first[13], want_afp)]))
                        rest = [('b', first[16:])] + segs[1:]
                        rest = Seg(rest).norm()
                        body = seg_equal(rest, g.exp.norm())
                        bad['C10'] = not_(and_(fixed, body, eq(v.length(), add(16, g.count))))
                    desc = 'build succeeded'
                else:
                    bad['C09'] = not_(and_(explicit is None, gt(g.count, 65535)))
                    desc = 'build failed'
        for prop, f in bad.items():
            if prop not in props:
                continue
            f = norm(f)
            nq += 1
            if f is False:
                continue
            s = z3.Solver()
            s.set('timeout', 120000)
            for c in pc:
                s.add(c)
            s.add(Z(f))
            t0 = time.time()
            r = s.check()
            st += time.time() - t0
            if r == z3.sat:
                m = s.model()
                vals = {str(d): str(m[d]) for d in m.decls() if d.arity() == 0}
                viol.append((prop, desc, vals))
            elif r != z3.unsat:
                viol.append((prop, 'solver unknown', {}))
    return len(res), nq, st, viol


def history_spec(ctor, ops, m, proto_k):
    def val(name):
        v = m.eval(z3.Int(name), model_completion=True)
        return v.as_long()
    if ctor == 'unix':
        parts = ['unix:%d:%d:%s' % (val('vc'), proto_k, ''.join('%02x' % val(n) for n in ('us0', 'us1', 'us2', 'ud0', 'ud1', 'ud2')))]
    elif ctor == 'new':
        parts = ['new:%d:%d' % (val('vc'), val('afp'))]
    else:
        parts = ['ipv4:%d:%d:%s' % (val('vc'), proto_k, ''.join('%02x' % val('ab%d' % k) for k in range(12)))]
    for i, op in enumerate(ops):
        if op == 'set_some':
            parts.append('setsome:%d' % val('len%d' % i))
        elif op == 'set_none':
            parts.append('setnone')
        elif op == 'reserve':
            parts.append('reserve:%d' % min(val('cap%d' % i), 1 << 20))
        elif op == 'u8':
            parts.append('u8:%d' % val('b%d' % i))
        elif op == 'u16':
            parts.append('u16:%d' % val('w%d' % i))
        elif op == 'type':
            parts.append('type')
        elif op == 'slice':
            parts.append('slice:%d' % val('n%d' % i))
        elif op == 'tlv':
            parts.append('tlv:%d:%d' % (val('t%d' % i), val('n%d' % i)))
        elif op == 'batch':
            parts.append('batch:%d:%d' % (val('n%d' % i), val('bb%d' % i)))
    return ';'.join(parts)


def builder_modular(prog, props, kmax, label):
    """all call sequences of length <= kmax over the menu OPS, after either constructor, ended by build"""
    recs = []
    npaths = 0
    t0 = time.time()
    hist = 0
    for k in range(0, kmax + 1):
        for ops in itertools.product(OPS, repeat=k):
            # reserve / set_none as the only differences from a shorter history add nothing at k = kmax: keep all for k < kmax
            for ctor in (('new', 'ipv4', 'unix') if k <= 1 else ('new', 'ipv4')):
                hist += 1
                n, nq, st, viol = check_history2(prog, ctor, list(ops), props)
                npaths += n
                rec = {'label': '%s:%s:%s' % (label, ctor, '.'.join(ops) or 'empty'), 'task': [label, ctor, hist], 'solver_s': st, 'status': 'unsat', 'nq': nq}
                if viol:
                    prop, desc, spec = viol[0]
                    rec['status'] = 'sat' if spec else 'unknown'
                    if spec:
                        rec['cex'] = {'runs': [['v2_builder', spec.encode().hex()]], 'violated_if': 'builder_' + prop.lower(),
                                      'summary': '%s: builder history `%s` (%s)' % (prop, spec, desc)}
                    else:
                        rec['detail'] = desc
                recs.append(rec)
    return hist, npaths, recs


def check_history2(prog, ctor, ops, props):
    """like check_history but returns violations as replayable history specs"""
    ctx = models.InputCtx(4)
    ex = v1sum.new_exec(prog, [ctx], 4)
    ex.suffix = ''
    ex.hooks = [models_b.hook]

    def run(e):
        o, g, vc, want_afp = run_history(e, prog, ctor, ops)
        e.notes.append(('hist', o, g, vc, want_afp))
        return o[0]
    res = explore(ex, run, base_axioms=[])
    viol = []
    nq = 0
    st = 0.0
    for sc, items, outc, notes in res:
        pc = [c for _, c in items]
        proto_k = 0
        if ctor in ('ipv4', 'unix'):
            ks = [d for d in sc if isinstance(d, int) and not isinstance(d, bool)]
            proto_k = ks[0] if ks else 0
        bad = history_badness(outc, notes)
        for prop, (f, desc) in bad.items():
            if prop not in props:
                continue
            f = norm(f)
            nq += 1
            if f is False:
                continue
            s = z3.Solver()
            s.set('timeout', 120000)
            for c in pc:
                s.add(c)
            s.add(Z(f))
            t0 = time.time()
            r = s.check()
            if r == z3.sat:
                # realisable sizes for the native replay
                s.push()
                for i, op in enumerate(ops):
                    if op in ('slice', 'tlv', 'batch'):
                        s.add(z3.Int('n%d' % i) <= 200000)
                r2 = s.check()
                if r2 == z3.sat:
                    viol.append((prop, desc, history_spec(ctor, ops, s.model(), proto_k)))
                else:
                    viol.append((prop, desc + ' (only with payloads larger than 200000 bytes: not replayed)', None))
                s.pop()
            elif r != z3.unsat:
                viol.append((prop, 'solver unknown', None))
            st += time.time() - t0
    return len(res), nq, st, viol


def history_badness(outc, notes):
    """{property: (violation formula, description)} for one explored path of a history"""
    if outc[0] == 'panic':
        t = z3.BoolVal(True)
        return {'C09': (t, 'panic: %s' % outc[1]), 'C10': (t, 'panic: %s' % outc[1]), 'C20': (t, 'panic: %s' % outc[1])}
    _, o, g, vc, want_afp = [x for x in notes if x[0] == 'hist'][0]
    bad = {}
    explicit = g.explicit
    if o[0] == 'write_err':
        _, i, op, over, before = o[1]
        bad['C20'] = (not_(or_(over, gt(before, 65535))), 'call %d (%s) failed although the value fits and the writer is below its limit' % (i, op))
        return bad
    r = o[1]
    if r.variant == 'Ok':
        v = r.fields[0]
        segs = v.norm()
        if not (segs and segs[0][0] == 'b' and len(segs[0][1]) >= 16):
            t = z3.BoolVal(True)
            return {'C09': (t, 'built buffer has no 16-byte fixed part'), 'C10': (t, 'built buffer has no 16-byte fixed part')}
        first = segs[0][1]
        field = add(mul(first[14], 256), first[15])
        want = explicit if explicit is not None else g.count
        bad['C09'] = (or_(ne(field, want), (gt(g.count, 65535) if explicit is None else False)),
                      'build succeeded with a length field that is neither the explicit length in force nor the payload size (or a payload > 65535 without override)')
        fixed = and_(*([eq(first[k], SIG[k]) for k in range(12)] + [eq(first[12], vc), eq(first[13], want_afp)]))
        rest = Seg([('b', first[16:])] + segs[1:]).norm()
        body = seg_equal(rest, g.exp.norm())
        bad['C10'] = (not_(and_(fixed, body, eq(v.length(), add(16, g.count)))), 'built bytes are not signature, control bytes, length, address block and the payload encodings in call order')
    else:
        bad['C09'] = (not_(and_(explicit is None, gt(g.count, 65535))), 'build failed although an explicit length is in force or the payload fits in 65535 bytes')
    return bad
