"""Semantic models of the std functions called by ppp's code = the trusted base of Engine M.

Each model is a direct transcription of the documented behaviour of the std item, written
independently of ppp. Position-dependent facts about the symbolic input (next separator,
next non-digit, UTF-8 automaton state, ...) are *definitions* introduced once per input
(InputCtx) as uninterpreted functions with one defining axiom per concrete position
0..LMAX+1, so that a call site costs O(1) terms and no quantifier reaches the solver.
"""
import re, zlib
import z3
from core import *


def stable_hash(s):
    return '%08x' % (zlib.crc32(s.encode()) & 0xffffffff)

OPT = 'std::option::Option'
RES = 'std::result::Result'
CF = 'std::ops::ControlFlow'
COW = 'std::borrow::Cow'


def Some(v):
    return Enum(OPT, 'Some', [v])


def NoneV():
    return Enum(OPT, 'None', [])


def Ok(v):
    return Enum(RES, 'Ok', [v])


def Err(v):
    return Enum(RES, 'Err', [v])


I = z3.IntSort()
B = z3.BoolSort()


class InputCtx:
    """A symbolic input buffer S[0..L) with L <= LMAX and its helper definitions."""

    def __init__(self, lmax, suffix='', share=None):
        """share: another InputCtx whose buffer S (and address grammar symbols) this one reuses with
        its own length L: the same byte stream seen at another length (prefix / longer read)."""
        self.lmax = lmax
        self.suffix = suffix
        self.big = lmax + 10
        self.shared = share
        self.S = share.S if share is not None else z3.Function('S' + suffix, I, I)
        self.L = z3.Int('L' + suffix)
        self.buf = Buf('in' + suffix, fn=self.S, length=self.L)
        self.axioms = []
        self.base = [self.L >= 0, self.L <= lmax]
        for j in range(lmax + 2):
            self.base.append(z3.And(self.S(j) >= 0, self.S(j) <= 255))
        self.axioms += self.base
        self._next = {}
        self._memo = {}
        self._utf8 = None
        # uninterpreted std address grammars (position-based: a function of the fixed input S)
        if share is not None:
            self.ok4, self.val4, self.ok6, self.val6 = share.ok4, share.val4, share.ok6, share.val6
            self._utf8 = share.utf8fns()         # a function of S only
            self._next = share._next
        else:
            self.ok4 = z3.Function('ok4' + suffix, I, I, B)
            self.val4 = z3.Function('val4' + suffix, I, I, I)
            self.ok6 = z3.Function('ok6' + suffix, I, I, B)
            self.val6 = z3.Function('val6' + suffix, I, I, I)

    def input_str(self, is_str=True):
        return Str(self.buf, 0, self.L, is_str)

    def byte(self, i):
        return self.S(Z(i))

    def nextfn(self, key, pred):
        """next(j) = least i >= j (i <= LMAX) with pred(S[i]), else BIG. Defined by LMAX+2 axioms."""
        if key in self._next:
            return self._next[key]
        f = z3.Function('nx_%s%s' % (key, self.suffix), I, I)
        ax = [f(self.lmax + 1) == self.big]
        for j in range(self.lmax, -1, -1):
            ax.append(f(j) == z3.If(pred(self.S(j)), z3.IntVal(j), f(j + 1)))
        # range facts help the solver
        for j in range(self.lmax + 2):
            ax.append(f(j) >= j)
        self.axioms += ax
        self._next[key] = f
        return f

    def forall_range(self, lo, hi, key, pred):
        """AND_{k} (lo <= k < hi -> pred(S[k])) expanded over the concrete positions 0..LMAX
        (no quantifier reaches the solver). pred terms are cached per key."""
        mk = (lo if isinstance(lo, int) else ('a', lo.get_id()), hi if isinstance(hi, int) else ('a', hi.get_id()), key)
        hit = self._memo.get(mk)
        if hit is not None:
            return hit[0]
        cache = self._next.setdefault(('fa', key), [Z(pred(self.S(k))) for k in range(self.lmax + 1)])
        cs = []
        lo_c = lo if isinstance(lo, int) else None
        hi_c = hi if isinstance(hi, int) else None
        for k in range(self.lmax + 1):
            if lo_c is not None and k < lo_c:
                continue
            if hi_c is not None and k >= hi_c:
                break
            g = []
            if lo_c is None:
                g.append(lo <= k)
            if hi_c is None:
                g.append(hi > k)
            if not g:
                cs.append(cache[k])
            elif len(g) == 1:
                cs.append(z3.Or(z3.Not(g[0]), cache[k]))
            else:
                cs.append(z3.Or(z3.Not(g[0]), z3.Not(g[1]), cache[k]))
        r = z3.And(cs) if cs else z3.BoolVal(True)
        self._memo[mk] = (r, lo, hi)     # keep lo/hi alive so that their ast ids stay unique
        return r

    def utf8fns(self):
        """UTF-8 automaton (Unicode table 3-7): state after consuming S[0..j).
        okp(j): no error so far; rem(j): continuation bytes still expected."""
        if self._utf8:
            return self._utf8
        sfx = self.suffix
        okp = z3.Function('u8ok' + sfx, I, B)
        rem = z3.Function('u8rem' + sfx, I, I)
        lo = z3.Function('u8lo' + sfx, I, I)
        hi = z3.Function('u8hi' + sfx, I, I)
        ax = [okp(0), rem(0) == 0, lo(0) == 0x80, hi(0) == 0xBF]
        for j in range(self.lmax + 1):
            b = self.S(j)
            lead_ok = z3.Or(b < 0x80, z3.And(b >= 0xC2, b <= 0xF4))
            cont_ok = z3.And(b >= lo(j), b <= hi(j))
            ax.append(okp(j + 1) == z3.And(okp(j), z3.If(rem(j) == 0, lead_ok, cont_ok)))
            ax.append(rem(j + 1) == z3.If(rem(j) == 0,
                                          z3.If(b < 0x80, 0, z3.If(b < 0xE0, 1, z3.If(b < 0xF0, 2, 3))),
                                          rem(j) - 1))
            ax.append(lo(j + 1) == z3.If(rem(j) == 0, z3.If(b == 0xE0, 0xA0, z3.If(b == 0xF0, 0x90, 0x80)), 0x80))
            ax.append(hi(j + 1) == z3.If(rem(j) == 0, z3.If(b == 0xED, 0x9F, z3.If(b == 0xF4, 0x8F, 0xBF)), 0xBF))
            ax.append(z3.And(rem(j + 1) >= 0, rem(j + 1) <= 3))
        self.axioms += ax
        self._utf8 = (okp, rem)
        return self._utf8

    def valid_utf8_prefix(self, n):
        okp, rem = self.utf8fns()
        return z3.And(okp(Z(n)), rem(Z(n)) == 0)


def ctx_of(ex, s):
    """InputCtx owning the buffer of slice s (None for literals)"""
    for c in ex.ctxs:
        if c.buf is s.buf:
            return c
    return None


def byte_at(s, i):
    return s.buf.at(add(s.start, i))


def bounded_forall(lo, hi, body, limit):
    """AND_{j in [0,limit)} (lo<=j<hi -> body(j)) with concrete j"""
    cs = []
    for j in range(limit):
        g = and_(le(lo, j), lt(j, hi))
        if g is False:
            continue
        b = body(j)
        cs.append(implies(g, b))
    return and_(*cs)


def str_eq(ex, a, b):
    """formula: slices a and b have equal content"""
    if b.concrete():
        data = b.bytes()
        n = len(data)
        return and_(eq(a.len(), n), *[eq(byte_at(a, i), data[i]) for i in range(n)])
    if a.concrete():
        return str_eq(ex, b, a)
    la, lb = a.len(), b.len()
    if a.buf is b.buf and not is_c(a.start) and not is_c(b.start) and a.start.eq(b.start) or (is_c(a.start) and is_c(b.start) and a.start == b.start and a.buf is b.buf):
        return eq(la, lb)
    # both symbolic: case split on a small length first (keeps the expansion short on most paths)
    if ex.branch(le(la, 8)):
        lim = 8
    else:
        lim = ex.lmax + 2
    return and_(eq(la, lb), bounded_forall(0, la, lambda i: eq(byte_at(a, i), byte_at(b, i)), lim))


def starts_with(ex, h, p):
    lp = p.len()
    pre = Str(h.buf, h.start, add(h.start, lp))
    if p.concrete():
        data = p.bytes()
        return and_(le(len(data), h.len()), *[eq(byte_at(h, i), data[i]) for i in range(len(data))])
    if h.concrete():
        # literal.starts_with(symbolic p): p is one of the literal's prefixes
        data = h.bytes()
        return or_(*[and_(eq(lp, k), *[eq(byte_at(p, i), data[i]) for i in range(k)]) for k in range(len(data) + 1)])
    return and_(le(lp, h.len()), str_eq(ex, pre, p))


def ends_with(ex, h, p):
    lp = p.len()
    if p.concrete():
        data = p.bytes()
        n = len(data)
        return and_(le(n, h.len()), *[eq(h.buf.at(add(sub(h.end, n), i)), data[i]) for i in range(n)])
    suf = Str(h.buf, sub(h.end, lp), h.end)
    # same buffer and the field already *is* the tail
    if h.buf is p.buf:
        tail = eq(p.end, h.end)
        if tail is True:
            return le(lp, h.len())
        if ex.branch(tail):
            return le(lp, h.len())
    return and_(le(lp, h.len()), str_eq(ex, suf, p))


# ------------------------------------------------------------ closures
_pred_cache = {}


def closure_pred(ex, clo, argkind='char'):
    """formula builder for a (char|&u8) -> bool closure, obtained by exploring the closure's own MIR
    on a fresh symbolic value."""
    key = (id(ex.prog), clo.fnname)
    if key in _pred_cache:
        return _pred_cache[key]
    sub_ex = Exec(ex.prog, ex.dispatch)
    sub_ex.ctxs = []
    sub_ex.lmax = ex.lmax
    sub_ex.hooks = list(getattr(ex, 'hooks', []))
    x = z3.Int('clo_x')
    cases = []

    def run(e):
        e.assume(z3.And(x >= 0, x <= 0x10FFFF))
        arg = x if argkind == 'char' else Ref(Cell(x))
        return e.call_fn(clo.fnname, [Ref(Cell(clo)), arg], {})

    for script, items, out, notes in explore(sub_ex, run):
        if out[0] != 'ret':
            raise Unsupported('closure predicate panics')
        cases.append(and_(*([c_ for _, c_ in items] + [out[1]])))
    f = z3.simplify(Z(or_(*cases)))
    # the byte-level use of a char predicate is only sound if it is false on every non-ASCII char
    s = z3.Solver()
    s.add(f, x >= 128)
    if s.check() != z3.unsat:
        raise Unsupported('separator predicate can match a non-ASCII char: byte-level model not applicable')
    fn = lambda b: z3.substitute(f, (x, Z(b)))
    _pred_cache[key] = (fn, f.sexpr())
    return _pred_cache[key]


def call_closure(ex, clo, args):
    f = ex.fns[clo.fnname][0]
    byref = f.types[f.args[0]].lstrip().startswith('&')
    return ex.call_fn(clo.fnname, [Ref(Cell(clo)) if byref else clo] + args, {})


# ------------------------------------------------------------ find / split models
def find_first(ex, s, lo, key, pred):
    """first absolute index j in [lo, s.end) with pred(byte). Returns (found, j).
    Encoding: branch on existence; fresh index j with lo <= j < end, pred(S[j]) and the
    expanded minimality condition (no earlier position satisfies pred)."""
    if s.concrete():
        raise Unsupported('find on a literal')
    c = ctx_of(ex, s)
    if c is None:
        raise Unsupported('find on a non-input buffer')
    npred = lambda b: z3.Not(pred(b))
    # total definition: j = least index in [lo, end) with pred(S[j]), or end if there is none
    # (invariant lo <= end holds for every caller: cursors never pass the end of their slice)
    j = ex.fresh('ix')
    ex.assume(z3.And(Z(lo) <= j, j <= Z(s.end), c.forall_range(lo, j, 'not_' + key, npred),
                     z3.Or(j == Z(s.end), pred(c.S(j)))))
    if ex.branch(j < Z(s.end)):
        return True, j
    return False, None


def splitn_next(ex, it):
    if it.finished or it.count == 0:
        return NoneV()
    if it.count == 1:
        it.count = 0
        return split_get_end(it)
    it.count -= 1
    s = it.s
    found, j = find_first(ex, s, it.pos, it.key, it.pred)
    if found:
        elt = Str(s.buf, it.pos, j)
        it.pos = add(j, 1)
        return Some(elt)
    return split_get_end(it)


def split_get_end(it):
    if not it.finished:
        it.finished = True
        return Some(Str(it.s.buf, it.pos, it.s.end))     # allow_trailing_empty = true for split/splitn
    return NoneV()


def iter_next(ex, it):
    it = deref(it)
    if it.kind == 'splitn':
        return splitn_next(ex, it)
    if it.kind == 'seqiter':
        import models_it
        return models_it.seq_next(ex, it)
    if it.kind == 'splitstr':
        import models_it
        return models_it.splitstr_next(ex, it)
    if it.kind == 'peekable':
        if it.peeked is not None:
            v = it.peeked
            it.peeked = None
            return v
        return iter_next(ex, it.inner)
    raise Unsupported('iter_next ' + it.kind)


# ------------------------------------------------------------ number / address parsing
def is_digit(b):
    return z3.And(b >= 48, b <= 57)


def parse_u16(ex, s):
    """<u16 as FromStr>::from_str == u16::from_str_radix(s, 10) (core::num, unsigned type):
    empty -> Empty; a lone '+' or '-' -> InvalidDigit; one leading '+' is skipped ('-' is an invalid
    digit for unsigned types); digits are consumed left to right, the first failing event decides:
    a non-digit -> InvalidDigit, exceeding 65535 -> PosOverflow; leading zeros are accepted."""
    c = ctx_of(ex, s)
    if c is None:
        raise Unsupported('parse::<u16> on a non-input buffer')
    n = s.len()
    if not ex.branch(gt(n, 0)):
        return Err(Opaque('ParseIntError', ekind='Empty'))
    first = byte_at(s, 0)
    sign = or_(eq(first, 43), eq(first, 45))
    if ex.branch(and_(eq(n, 1), sign)):
        return Err(Opaque('ParseIntError', ekind='InvalidDigit'))
    plus = eq(first, 43)
    dstart = ex.fresh('ds')
    ex.assume(dstart == ite(plus, add(s.start, 1), s.start))
    # end of the leading run of digits (== first invalid digit position, or end if none)
    dend = ex.fresh('dend')
    ex.assume(z3.And(dstart <= dend, dend <= Z(s.end)))
    ex.assume(c.forall_range(dstart, dend, 'digit', is_digit))
    ex.assume(z3.Or(dend == Z(s.end), z3.Not(is_digit(c.S(dend)))))
    p_inv = dend
    # first significant (non-'0') digit
    zpos = ex.fresh('z')
    ex.assume(z3.And(dstart <= zpos, zpos <= dend))
    ex.assume(c.forall_range(dstart, zpos, 'zero', lambda b: b == 48))
    ex.assume(z3.Or(zpos == dend, c.S(zpos) != 48))
    sig = sub(dend, zpos)
    # value of the first (up to) 5 significant digits
    v = 0
    for k in range(5):
        d = sub(c.byte(add(zpos, k)), 48)
        v = ite(lt(add(zpos, k), dend), add(mul(v, 10), d), v)
    val = ex.fresh('u16')
    ex.assume(val == Z(v))
    overflow = or_(gt(sig, 5), and_(eq(sig, 5), gt(val, 65535)))
    if ex.branch(overflow):
        return Err(Opaque('ParseIntError', ekind='PosOverflow'))
    if ex.branch(lt(p_inv, s.end)):
        return Err(Opaque('ParseIntError', ekind='InvalidDigit'))
    return Ok(val)


V4_CHARS = lambda b: z3.Or(is_digit(b), b == 46)
V6_CHARS = lambda b: z3.Or(is_digit(b), z3.And(b >= 97, b <= 102), z3.And(b >= 65, b <= 70), b == 58, b == 46)


def parse_addr(ex, s, fam):
    """<Ipv4Addr|Ipv6Addr as FromStr>::from_str: uninterpreted grammar ok(field) / val(field) of the
    field's position in the fixed input, constrained only by the std contract facts used by the
    oracles: an accepted text is non-empty, at most 15 (v4) / 45 (v6) bytes, over the alphabet
    [0-9.] (v4) / [0-9a-fA-F:.] (v6)."""
    c = ctx_of(ex, s)
    if c is None:
        raise Unsupported('parse::<IpAddr> on a non-input buffer')
    ok, val = (c.ok4, c.val4) if fam == 4 else (c.ok6, c.val6)
    okv = ok(Z(s.start), Z(s.end))
    # std contract facts about accepted address texts (axiom, asserted before the branch)
    ex.assume(z3.Implies(okv, z3.And(Z(s.len()) > 0, Z(s.len()) <= (15 if fam == 4 else 45),
                                     c.forall_range(s.start, s.end, 'v%dchars' % fam, V4_CHARS if fam == 4 else V6_CHARS))))
    if ex.branch(okv):
        ex.notes.append(('addr', fam, s.start, s.end, True))
        return Ok(Opaque('ip', fam=fam, val=val(Z(s.start), Z(s.end)), src=(s.start, s.end)))
    ex.notes.append(('addr', fam, s.start, s.end, False))
    return Err(Opaque('AddrParseError', fam=fam))


def addr_contract(c, fam, s, e):
    """the same contract facts, as a formula, for oracles that apply ok() at their own positions"""
    ok = c.ok4 if fam == 4 else c.ok6
    return z3.Implies(ok(Z(s), Z(e)), z3.And(Z(e) - Z(s) > 0, Z(e) - Z(s) <= (15 if fam == 4 else 45),
                                             c.forall_range(s, e, 'v%dchars' % fam, V4_CHARS if fam == 4 else V6_CHARS)))


# ------------------------------------------------------------ slicing
def str_index(ex, s, start, end, what):
    """<str|[u8] as Index<Range*>>::index with std's panics"""
    ln = s.len()
    if start is None:
        start = 0
    if end is None:
        end = ln
    if not ex.branch(le(start, end)):
        raise Panic('slice index starts at %s but ends at %s (%s)' % ('start', 'end', what))
    if not ex.branch(le(end, ln)):
        raise Panic('range end index out of range for slice (%s)' % what)
    if s.is_str:
        for pos, nm in ((start, 'start'), (end, 'end')):
            if is_c(pos) and pos == 0:
                continue
            b = s.buf.at(add(s.start, pos))
            isb = or_(eq(pos, ln), eq(pos, 0), not_(and_(ge(b, 128), lt(b, 192))))
            if not ex.branch(isb):
                raise Panic('byte index is not a char boundary (%s %s)' % (what, nm))
    return Str(s.buf, add(s.start, start), add(s.start, end), s.is_str)


# ------------------------------------------------------------ dispatch
def resolve_crate_call(ex, f, argv, frame):
    prog = ex.prog
    # plain crate fn (possibly generic)
    m = re.match(r'^([\w:]+?)(::<(.*)>)?$', f)
    if m and m.group(1) in ex.fns:
        gen = {}
        if m.group(3):
            names = prog.generic_params(m.group(1))
            vals = [v for v in split_top(m.group(3)) if not v.startswith("'")]
            gen = dict(zip(names, vals))
        return True, ex.call_fn(m.group(1), argv, gen)
    # <Type as Trait>::method on crate impls
    m = re.match(r'^<(.*) as (.*)>::(\w+)$', f)
    if m:
        ty, tr, meth = norm_ty(m.group(1)), norm_ty(m.group(2)), m.group(3)
        cands = []
        for (itr, ity, imeth, name) in prog.impl_index:
            if imeth != meth or itr is None:
                continue
            if last_seg(strip_generics(itr)) != last_seg(strip_generics(tr)):
                continue
            cands.append((itr, ity, name))

        def tkey(t, dv=None):
            """module-insensitive but version-sensitive key: v1::error::ParseError ~ v1::ParseError ~
            ParseError written inside src/v1/ (dv = version of the file the impl lives in)"""
            def one(mm):
                path = mm.group(0).split('::')
                if path[0] in ('std', 'core', 'alloc'):
                    return path[-1]
                ver = [p for p in path[:-1] if p in ('v1', 'v2')]
                v = ver[0] if ver else dv
                return (v + '::' if v else '') + path[-1]
            return re.sub(r"(?<![\w:'])[A-Za-z_]\w*(?:::\w+)*", one, t)

        def dver(name):
            mm2 = re.search(r'<impl at src/(v1|v2)/', name)
            return mm2.group(1) if mm2 else None
        PRIM = ('u8', 'u16', 'u32', 'u64', 'u128', 'usize', 'i8', 'i16', 'i32', 'i64', 'i128', 'isize', 'str', 'bool', 'char', 'T', 'E', 'Self')
        cands = [(c[0], c[1], c[2]) for c in cands]
        _tk = tkey

        def tkey(t, dv=None, _tk=_tk):
            r = _tk(t, dv)
            for pnm in PRIM:
                r = re.sub(r'(?<![\w:])(?:v1|v2)::%s(?!\w)' % pnm, pnm, r)
            return r
        exact = [c for c in cands if tkey(c[1], dver(c[2])) == tkey(ty) and tkey(tr) in (tkey(c[0], dver(c[2])), tkey(c[0]))]
        if len(exact) == 1:
            return True, ex.call_fn(exact[0][2], argv, {})
        sameself = [c for c in cands if tkey(c[1], dver(c[2])) == tkey(ty)]
        if len(sameself) == 1:
            return True, ex.call_fn(sameself[0][2], argv, {})
        exact = [c for c in cands if tkey(c[1]) == tkey(ty) and tkey(c[0]) == tkey(tr)]
        if len(exact) == 1:
            return True, ex.call_fn(exact[0][2], argv, {})
        sameself = [c for c in cands if tkey(c[1]) == tkey(ty)]
        if len(sameself) == 1:
            return True, ex.call_fn(sameself[0][2], argv, {})
        # generic impls: unify the impl's self type pattern with the actual type
        for c in cands:
            gen = unify_impl(prog, c[2], c[1], ty)
            if gen is not None and gen:
                return True, ex.call_fn(c[2], argv, gen)
        loose = [c for c in cands if last_seg(strip_generics(c[1])) == last_seg(strip_generics(ty))
                 and ver_of(c[1]) == ver_of(ty)]
        if len(loose) == 1:
            return True, ex.call_fn(loose[0][2], argv, {})
        # blanket / macro-generated impls: by receiver type in the MIR signature
        r = find_impl_by_receiver(ex, meth, ty, tr)
        if r:
            return True, ex.call_body(r[0], argv, r[1])
        # derive-generated impls (thiserror #[from], ...): by the MIR signature
        mm = re.match(r'^std::convert::From<(.*)>$', m.group(2))
        if mm and meth == 'from':
            want_ret, want_arg = norm_ty(m.group(1)), norm_ty(mm.group(1))
            for name, fl in ex.fns.items():
                if name.endswith('>::from') and '<impl at' in name:
                    fn_ = fl[0]
                    if norm_ty(fn_.types[0]) == want_ret and fn_.args and norm_ty(fn_.types[fn_.args[0]]) == want_arg:
                        return True, ex.call_fn(name, argv, {})
        # derive-generated impls (#[derive(Default, Clone, PartialEq, ...)]: the impl span is the derive attribute):
        # resolved by the MIR signature (return type for argument-less methods, receiver type otherwise)
        if ver_of(m.group(1)) or not m.group(1).startswith(('std::', 'core::', 'alloc::', '&', '[', '(')):
            want = norm_ty(m.group(1))
            dc = []
            for name, fl in ex.fns.items():
                if not name.endswith('>::' + meth) or '<impl at' not in name:
                    continue
                fn_ = fl[0]
                if not fn_.args:
                    if norm_ty(fn_.types[0]) == want:
                        dc.append(name)
                elif norm_ty(fn_.types[fn_.args[0]]) in ('&' + want, want, '&mut' + want):
                    dc.append(name)
            if len(dc) == 1 and not any(dc[0] == c[2] for c in cands):
                return True, ex.call_fn(dc[0], argv, {})
        # trait default methods (fn Trait::method with Self generic)
        dn = last_seg(strip_generics(tr)) + '::' + meth
        if dn in ex.fns:
            return True, ex.call_fn(dn, argv, {'Self': m.group(1)})
    # inherent method  path::Type::<..>::method::<..>
    if not f.startswith(('std::', 'core::', 'alloc::', '<')):
        segs = split_path(f)
        names = [x for x in segs if not x.startswith('<')]
        if len(names) >= 2:
            meth, tyname = names[-1], names[-2]
            mgen = segs[-1][1:-1] if segs[-1].startswith('<') else None
            for (itr, ity, imeth, name) in prog.impl_index:
                if itr is None and imeth == meth and last_seg(strip_generics(ity)) == tyname:
                    gen = {}
                    if mgen:
                        gnames = prog.generic_params(name)
                        vals = [v for v in split_top(mgen) if not v.startswith("'")]
                        gen = dict(zip(gnames, vals))
                    return True, ex.call_fn(name, argv, gen)
    return False, None


def split_path(f):
    """split a path on top-level `::` (angle brackets nest): a::B::<'_>::m::<u8> -> [a, B, <'_>, m, <u8>]"""
    out = []
    depth = 0
    cur = ''
    i = 0
    while i < len(f):
        c = f[i]
        if c == '<':
            depth += 1
        elif c == '>' and f[i - 1] != '-':
            depth -= 1
        if depth == 0 and f.startswith('::', i):
            out.append(cur)
            cur = ''
            i += 2
            continue
        cur += c
        i += 1
    out.append(cur)
    return out


def ver_of(t):
    m = re.search(r'\b(v1|v2)::', t)
    return m.group(1) if m else None


def unify_impl(prog, fname, pattern, actual):
    """bind the impl's generic type parameters by structural matching of the impl's self type pattern
    (`Name<A, B>`, `(T, &[u8])`, `&T`, ...) against the actual type"""
    m = re.search(r'<impl at (src/[^:]+):(\d+):', fname)
    if not m:
        return None
    line = prog.src(m.group(1)).split('\n')[int(m.group(2)) - 1]
    gm = re.match(r'\s*impl<(.*?)>\s', line)
    if not gm:
        return None
    gens = [g.split(':')[0].strip() for g in split_top(gm.group(1))]
    gens = [g for g in gens if g and not g.startswith("'")]
    out = {}
    if _unify(norm_ty(pattern), norm_ty(actual), gens, out):
        return out
    return None


def _unify(p, a, gens, out):
    if p in gens:
        if p in out and out[p] != a:
            return False
        out[p] = a
        return True
    if p.startswith('&') and a.startswith('&'):
        p2, a2 = p[1:], a[1:]
        if p2.startswith('mut') != a2.startswith('mut'):
            return False
        return _unify(p2[3:] if p2.startswith('mut') else p2, a2[3:] if a2.startswith('mut') else a2, gens, out)
    if p.startswith('(') and p.endswith(')') and a.startswith('(') and a.endswith(')'):
        pa, aa = split_top(p[1:-1]), split_top(a[1:-1])
        return len(pa) == len(aa) and all(_unify(x, y, gens, out) for x, y in zip(pa, aa))
    if p.startswith('[') and a.startswith('['):
        return p == a
    pm = re.match(r'^([\w:]+)<(.*)>$', p)
    am = re.match(r'^([\w:]+)<(.*)>$', a)
    if pm and am:
        if last_seg(pm.group(1)) != last_seg(am.group(1)):
            return False
        pa, aa = split_top(pm.group(2)), split_top(am.group(2))
        return len(pa) == len(aa) and all(_unify(x, y, gens, out) for x, y in zip(pa, aa))
    if pm or am:
        return False
    return last_seg(p) == last_seg(a)


def find_impl_by_receiver(ex, method, selfty, trait):
    selfty = norm_ty(selfty)
    tname = last_seg(strip_generics(trait))
    for name, fl in ex.fns.items():
        if not name.endswith('>::' + method) or '<impl at' not in name:
            continue
        for f in fl:
            if not f.args:
                continue
            t = norm_ty(f.types[f.args[0]])
            if t in ('&' + selfty, selfty, '&mut' + selfty):
                return f, {}
    if selfty.startswith('&'):
        for name, fl in ex.fns.items():
            if name.endswith('>::' + method) and '<impl at' in name and fl[0].args and norm_ty(fl[0].types[fl[0].args[0]]) == '&&T':
                return fl[0], {'T': selfty[1:]}
    return None


def last_seg(t):
    return t.split('::')[-1] if t else t


def dispatch(ex, func, argv, frame):
    for hook in getattr(ex, 'hooks', []):
        handled, r = hook(ex, func, argv, frame)
        if handled:
            return r
    handled, r = resolve_crate_call(ex, func, argv, frame)
    if handled:
        return r
    f = func
    g = strip_generics(f)
    a = argv
    if g == 'core::str::<impl str>::len':
        return deref(a[0]).len()
    if g == 'core::str::<impl str>::is_empty':
        return eq(deref(a[0]).len(), 0)
    if g == 'core::str::<impl str>::as_bytes':
        s = deref(a[0])
        return Str(s.buf, s.start, s.end, False)
    if g in ('core::slice::<impl [u8]>::len', 'core::slice::<impl [T]>::len'):
        return deref(a[0]).len()
    if g in ('std::cmp::min', 'std::cmp::Ord::min') or re.match(r'^<\w+ as std::cmp::Ord>::min$', g):
        return ite(lt(a[1], a[0]), a[1], a[0])
    if g in ('std::cmp::max', 'std::cmp::Ord::max') or re.match(r'^<\w+ as std::cmp::Ord>::max$', g):
        return ite(lt(a[1], a[0]), a[0], a[1])
    mm_ = re.match(r'^core::num::<impl (u\w+)>::(saturating_sub|saturating_add|checked_sub|checked_add|wrapping_sub|wrapping_add|abs_diff|min|max)$', g)
    if mm_:
        lo_, hi_ = int_range(mm_.group(1))
        op_ = mm_.group(2)
        x, y = a[0], a[1]
        if op_ == 'saturating_sub':
            return ite(lt(x, y), 0, sub(x, y))
        if op_ == 'saturating_add':
            return ite(gt(add(x, y), hi_), hi_, add(x, y))
        if op_ == 'checked_sub':
            return NoneV() if not ex.branch(ge(x, y)) else Some(sub(x, y))
        if op_ == 'checked_add':
            return NoneV() if not ex.branch(le(add(x, y), hi_)) else Some(add(x, y))
        if op_ == 'wrapping_sub':
            return ite(lt(x, y), add(sub(x, y), hi_ + 1), sub(x, y))
        if op_ == 'wrapping_add':
            return ite(gt(add(x, y), hi_), sub(add(x, y), hi_ + 1), add(x, y))
        if op_ == 'abs_diff':
            return ite(lt(x, y), sub(y, x), sub(x, y))
        if op_ == 'min':
            return ite(lt(y, x), y, x)
        return ite(lt(y, x), x, y)
    if g == 'core::str::<impl str>::find' and f.endswith('::<char>'):
        ch = a[1]
        if not isinstance(ch, int) or ch >= 128:
            raise Unsupported('find of a non-ASCII / symbolic char')
        found, j = find_first(ex, a[0], a[0].start, 'eq%d' % ch, lambda b, ch=ch: b == ch)
        return Some(sub(j, a[0].start)) if found else NoneV()
    if g == 'core::str::<impl str>::find' and f.endswith('::<&str>'):
        hay, needle = deref(a[0]), deref(a[1])
        if not needle.concrete() or any(b >= 128 for b in needle.bytes()) or len(needle.bytes()) == 0:
            raise Unsupported('find of a non-literal / non-ASCII / empty pattern')
        c = ctx_of(ex, hay)
        if c is None:
            raise Unsupported('find on a non-input buffer')
        nb = needle.bytes()
        # total definition: j = least index in [start, end) at which the literal occurs entirely inside the slice, or end
        def occurs(k):
            return z3.And([Z(k) + len(nb) <= Z(hay.end)] + [c.S(Z(k) + i) == b for i, b in enumerate(nb)])
        j = ex.fresh('ixs')
        cs = [Z(hay.start) <= j, j <= Z(hay.end), z3.Or(j == Z(hay.end), occurs(j))]
        for k in range(c.lmax + 1):
            cs.append(z3.Or(z3.Not(Z(hay.start) <= k), z3.Not(j > k), z3.Not(occurs(k))))
        ex.assume(z3.And(cs))
        if ex.branch(j < Z(hay.end)):
            return Some(sub(j, hay.start))
        return NoneV()
    if g in ('core::str::<impl str>::trim_start_matches', 'core::str::<impl str>::trim_end_matches') and f.endswith('::<char>'):
        s = deref(a[0])
        ch = a[1]
        c = ctx_of(ex, s)
        if c is None or not isinstance(ch, int) or ch >= 128:
            raise Unsupported('trim_*_matches on a non-input buffer / non-ASCII char')
        j = ex.fresh('trm')
        if 'trim_start' in g:
            # j = least index in [start, end) whose byte differs from ch, or end
            ex.assume(z3.And(Z(s.start) <= j, j <= Z(s.end), c.forall_range(s.start, j, 'eq%d' % ch, lambda b, ch=ch: b == ch),
                             z3.Or(j == Z(s.end), c.S(j) != ch)))
            return Str(s.buf, j, s.end, s.is_str)
        # j = greatest end such that everything in [j, end) equals ch
        ex.assume(z3.And(Z(s.start) <= j, j <= Z(s.end), c.forall_range(j, s.end, 'eq%d' % ch, lambda b, ch=ch: b == ch),
                         z3.Or(j == Z(s.start), c.S(j - 1) != ch)))
        return Str(s.buf, s.start, j, s.is_str)
    if g in ('core::str::<impl str>::strip_prefix', 'core::str::<impl str>::strip_suffix'):
        s = deref(a[0])
        if f.endswith('::<char>'):
            if not isinstance(a[1], int) or a[1] >= 128:
                raise Unsupported('strip_* non-ASCII char')
            pat = Str(Buf('lit', data=bytes([a[1]])), 0, 1)
        else:
            pat = deref(a[1])
        n = pat.len()
        if 'strip_prefix' in g:
            if ex.branch(starts_with(ex, s, pat)):
                return Some(Str(s.buf, add(s.start, n), s.end, s.is_str))
            return NoneV()
        if ex.branch(ends_with(ex, s, pat)):
            return Some(Str(s.buf, s.start, sub(s.end, n), s.is_str))
        return NoneV()
    if g == 'core::str::<impl str>::is_char_boundary':
        s = deref(a[0])
        pos = a[1]
        b = s.buf.at(add(s.start, pos))
        return or_(eq(pos, 0), eq(pos, s.len()), and_(lt(pos, s.len()), not_(and_(ge(b, 128), lt(b, 192)))))
    if g == 'core::str::<impl str>::rfind' and f.endswith('::<char>'):
        s = deref(a[0])
        ch = a[1]
        c = ctx_of(ex, s)
        if c is None or not isinstance(ch, int) or ch >= 128:
            raise Unsupported('rfind on a non-input buffer / non-ASCII char')
        # total definition: j = greatest index in [start, end) with S[j] == ch, or start - 1 if there is none
        j = ex.fresh('rix')
        ex.assume(z3.And(Z(s.start) - 1 <= j, j < Z(s.end), c.forall_range(j + 1, s.end, 'not_eq%d' % ch, lambda b, ch=ch: z3.Not(b == ch)),
                         z3.Or(j == Z(s.start) - 1, c.S(j) == ch)))
        if ex.branch(j >= Z(s.start)):
            return Some(sub(j, s.start))
        return NoneV()
    if g in ('core::slice::<impl [u8]>::starts_with', 'core::slice::<impl [T]>::starts_with', 'core::slice::<impl [u8]>::ends_with', 'core::slice::<impl [T]>::ends_with'):
        s, pat = deref(a[0]), deref(a[1])
        if isinstance(pat, Opaque) and pat.kind == 'bytearray':
            pat = Str(pat.buf, 0, pat.n, False)
        if isinstance(s, Opaque) and s.kind == 'bytearray':
            s = Str(s.buf, 0, s.n, False)
        return starts_with(ex, s, pat) if 'starts_with' in g else ends_with(ex, s, pat)
    if g == 'core::str::<impl str>::contains' and (f.endswith('::<char>') or f.endswith('::<&str>')):
        r = dispatch(ex, f.replace('::contains::', '::find::'), a, frame)
        return r.variant == 'Some'
    if g in ('core::slice::<impl [u8]>::contains', 'core::slice::<impl [T]>::contains'):
        s = deref(a[0])
        x = deref(a[1])
        c = ctx_of(ex, s)
        if c is None or not isinstance(x, int):
            raise Unsupported('[u8]::contains on a non-input buffer / symbolic needle')
        return not_(c.forall_range(s.start, s.end, 'not_eq%d' % x, lambda b, x=x: z3.Not(b == x)))
    if g == 'core::slice::<impl [u8]>::iter' or g == 'core::slice::<impl [T]>::iter':
        return Opaque('sliceiter', s=deref(a[0]))
    if g == '<std::slice::Iter as std::iter::Iterator>::position':
        it = deref(a[0])
        fn, key = closure_pred(ex, a[1], argkind='ref')
        found, j = find_first(ex, it.s, it.s.start, 'clo_' + stable_hash(a[1].fnname + key), fn)
        return Some(sub(j, it.s.start)) if found else NoneV()
    if g in ('<str as std::ops::Index>::index', '<[u8] as std::ops::Index>::index', '<[T] as std::ops::Index>::index',
             'core::str::traits::<impl std::ops::Index for str>::index'):
        s = deref(a[0])
        r = a[1]
        if isinstance(s, Str):
            if 'RangeTo<usize>' in f:
                return str_index(ex, s, None, r.get('end'), 'RangeTo')
            if 'RangeFrom<usize>' in f:
                return str_index(ex, s, r.get('start'), None, 'RangeFrom')
            if 'Range<usize>' in f:
                return str_index(ex, s, r.get('start'), r.get('end'), 'Range')
        raise Unsupported('index ' + f + ' on ' + repr(s))
    if g in ('core::str::<impl str>::get', 'core::slice::<impl [u8]>::get', 'core::slice::<impl [T]>::get') and 'Range' in f:
        s = deref(a[0])
        r = a[1]
        start = r.get('start') if 'start' in r.names else 0
        end = r.get('end') if 'end' in r.names else s.len()
        ln = s.len()
        if not ex.branch(and_(le(start, end), le(end, ln))):
            return NoneV()
        if s.is_str:
            for pos in (start, end):
                if is_c(pos) and pos == 0:
                    continue
                b = s.buf.at(add(s.start, pos))
                isb = or_(eq(pos, ln), eq(pos, 0), not_(and_(ge(b, 128), lt(b, 192))))
                if not ex.branch(isb):
                    return NoneV()
        return Some(Str(s.buf, add(s.start, start), add(s.start, end), s.is_str))
    if g == 'core::str::<impl str>::splitn':
        fn, key = closure_pred(ex, a[2])
        return Opaque('splitn', s=a[0], pos=a[0].start, count=a[1], finished=False, pred=fn,
                      key='clo_' + stable_hash(a[2].fnname + key))
    if g.endswith('as std::iter::Iterator>::peekable'):
        return Opaque('peekable', inner=a[0], peeked=None)
    if g.endswith('as std::iter::Iterator>::next'):
        return iter_next(ex, a[0])
    if g == 'std::iter::Peekable::peek':
        it = deref(a[0])
        if it.peeked is None:
            it.peeked = iter_next(ex, it.inner)
        v = it.peeked
        return Some(Ref(Cell(v.fields[0]))) if v.variant == 'Some' else NoneV()
    if g == 'std::iter::Peekable::next_if':
        it = deref(a[0])
        v = iter_next(ex, it)
        if v.variant == 'Some':
            r = call_closure(ex, a[1], [Ref(Cell(v.fields[0]))])
            if ex.branch(r):
                return v
        if it.peeked is not None:
            raise Unsupported('next_if with a pending peek')
        it.peeked = v
        return NoneV()
    if g == 'std::option::Option::map_or':
        if a[0].variant == 'Some':
            return call_closure(ex, a[2], [a[0].fields[0]])
        return a[1]
    if g == 'std::option::Option::map':
        if a[0].variant == 'Some':
            fn = a[1]
            if isinstance(fn, Closure):
                return Some(call_closure(ex, fn, [a[0].fields[0]]))
            raise Unsupported('Option::map with ' + repr(fn))
        return NoneV()
    if g == 'std::option::Option::is_some_and':
        if a[0].variant == 'Some':
            return call_closure(ex, a[1], [a[0].fields[0]])
        return False
    if g == 'std::option::Option::ok_or':
        return Ok(a[0].fields[0]) if a[0].variant == 'Some' else Err(a[1])
    if g == 'std::option::Option::filter':
        if a[0].variant == 'Some':
            r = call_closure(ex, a[1], [Ref(Cell(a[0].fields[0]))])
            if ex.branch(r):
                return a[0]
        return NoneV()
    if g == 'std::option::Option::is_some':
        return deref(a[0]).variant == 'Some'
    if g == 'std::option::Option::is_none':
        return deref(a[0]).variant == 'None'
    if g == 'std::result::Result::is_err':
        return deref(a[0]).variant == 'Err'
    if g == 'std::result::Result::is_ok':
        return deref(a[0]).variant == 'Ok'
    if g.endswith('as std::ops::Try>::branch'):
        v = a[0]
        if v.ty == RES:
            return Enum(CF, 'Continue', [v.fields[0]]) if v.variant == 'Ok' else Enum(CF, 'Break', [Err(v.fields[0])])
        if v.ty == OPT:
            return Enum(CF, 'Continue', [v.fields[0]]) if v.variant == 'Some' else Enum(CF, 'Break', [NoneV()])
    if 'as std::ops::FromResidual' in g and g.endswith('::from_residual'):
        if a[0].ty == OPT:
            return NoneV()
        e = a[0].fields[0]
        mm = re.match(r'^<std::result::Result<.*, (.*)> as std::ops::FromResidual<std::result::Result<std::convert::Infallible, (.*)>>>::from_residual$', f)
        if mm and mm.group(1) != mm.group(2):
            e = dispatch(ex, '<%s as std::convert::From<%s>>::from' % (mm.group(1), mm.group(2)), [e], frame)
        return Err(e)
    if g.endswith(' as std::convert::Into>::into') or g.endswith('as std::convert::Into>::into'):
        mm = re.match(r'^<(.*) as std::convert::Into<(.*)>>::into$', f)
        if mm:
            src, dst = mm.group(1), mm.group(2)
            if norm_ty(src) == norm_ty(dst):
                return a[0]
            return dispatch(ex, '<%s as std::convert::From<%s>>::from' % (dst, src), a, frame)
    if g.endswith('as std::convert::From>::from'):
        mm = re.match(r'^<(.*) as std::convert::From<(.*)>>::from$', f)
        if mm and norm_ty(mm.group(1)) == norm_ty(mm.group(2)):
            return a[0]
        if mm and mm.group(1).startswith('std::option::Option<'):
            return Some(a[0])
    if g == 'core::str::<impl str>::starts_with' and f.endswith('::<&str>'):
        return starts_with(ex, deref(a[0]), deref(a[1]))
    if g == 'core::str::<impl str>::ends_with' and f.endswith('::<&str>'):
        return ends_with(ex, deref(a[0]), deref(a[1]))
    if g == 'core::str::<impl str>::starts_with' and f.endswith('::<char>'):
        s = deref(a[0])
        if not isinstance(a[1], int) or a[1] >= 128:
            raise Unsupported('starts_with non-ASCII char')
        return and_(gt(s.len(), 0), eq(byte_at(s, 0), a[1]))
    if g in ('<&str as std::cmp::PartialEq>::ne', '<&str as std::cmp::PartialEq>::eq', '<str as std::cmp::PartialEq>::eq',
             '<str as std::cmp::PartialEq>::ne'):
        e = str_eq(ex, deref(a[0]), deref(a[1]))
        return not_(e) if g.endswith('ne') else e
    if g == 'core::str::<impl str>::parse':
        t = f[f.index('parse::<') + 8:-1]
        if t == 'u16':
            return parse_u16(ex, a[0])
        if t == 'std::net::Ipv4Addr':
            return parse_addr(ex, a[0], 4)
        if t == 'std::net::Ipv6Addr':
            return parse_addr(ex, a[0], 6)
        raise Unsupported('parse ' + t)
    if g == 'std::result::Result::map_err':
        v = a[0]
        if v.variant == 'Ok':
            return v
        fn = a[1]
        if isinstance(fn, Closure):
            return Err(call_closure(ex, fn, [v.fields[0]]))
        if isinstance(fn, FnItem):
            mm = re.match(r'^(.*)::(\w+)$', strip_generics(fn.name))
            return Err(Enum(mm.group(1), mm.group(2), [v.fields[0]]))
    if g == 'std::str::from_utf8':
        s = deref(a[0])
        c = ctx_of(ex, s)
        if c is None or not (is_c(s.start) and s.start == 0):
            raise Unsupported('from_utf8 on something other than a prefix of the input')
        if ex.branch(c.valid_utf8_prefix(s.end)):
            return Ok(Str(s.buf, s.start, s.end, True))
        return Err(Opaque('Utf8Error', s=s))
    if g == 'std::char::methods::<impl char>::len_utf8':
        ch = a[0]
        if isinstance(ch, int):
            return 1 if ch < 0x80 else 2 if ch < 0x800 else 3 if ch < 0x10000 else 4
        raise Unsupported('len_utf8 symbolic')
    if g == '<std::borrow::Cow as std::ops::Deref>::deref' or g == '<std::borrow::Cow as std::convert::AsRef>::as_ref':
        c = deref(a[0])
        return c.fields[0]
    if g == '<std::borrow::Cow as std::string::ToString>::to_string' or g == '<str as std::string::ToString>::to_string':
        c = deref(a[0])
        s = c.fields[0] if isinstance(c, Enum) else c
        return Opaque('String', s=s)
    if g.endswith('as std::clone::Clone>::clone'):
        return deref(a[0])
    if g == 'std::net::Ipv6Addr::to_canonical':
        ip = deref(a[0])
        if not (isinstance(ip, Opaque) and ip.kind == 'ip' and ip.fam == 6):
            raise Unsupported('to_canonical of ' + repr(ip))
        # IPv4-mapped (::ffff:a.b.c.d) addresses become the IPv4 address, everything else is unchanged
        mapped = eq(Z(ip.val) / (2 ** 32), 0xFFFF)
        if ex.branch(mapped):
            return Enum('std::net::IpAddr', 'V4', [Opaque('ip', fam=4, val=Z(ip.val) % (2 ** 32))])
        return Enum('std::net::IpAddr', 'V6', [ip])
    if g == 'core::fmt::rt::Argument::new_display':
        t = f[f.index('new_display::<') + 14:-1]
        v = deref(a[0])
        if t == 'std::net::IpAddr' and isinstance(v, Enum):
            return Opaque('fmtarg', ty='std::net::Ipv4Addr' if v.variant == 'V4' else 'std::net::Ipv6Addr', v=v.fields[0])
        return Opaque('fmtarg', ty=t, v=v)
    if g == 'std::fmt::Arguments::new':
        tpl = deref(a[0])
        args = deref(a[1])
        if isinstance(tpl, Str):
            data = tpl.bytes()
        elif isinstance(tpl, Opaque) and tpl.kind == 'bytearray':
            data = tpl.buf.data
        else:
            raise Unsupported('fmt template ' + repr(tpl))
        items = args.items if isinstance(args, (Tuple, ArrSlice)) else None
        if items is None:
            raise Unsupported('fmt args ' + repr(args))
        return Opaque('fmtargs', template=bytes(data), args=list(items))
    if g == 'std::fmt::Formatter::write_fmt':
        # this nightly's format template byte-code: <len 1..0x7f><len literal bytes> | 0xC0 = next argument | 0x00 = end
        fm = deref(a[0])
        fa = a[1]
        data = fa.template
        i = 0
        nxt = 0
        while True:
            if i >= len(data):
                raise Unsupported('fmt template without terminator')
            b = data[i]
            if b == 0:
                break
            if b == 0xC0:
                if nxt >= len(fa.args):
                    raise Unsupported('fmt template uses more arguments than supplied')
                fm.pieces.append(fa.args[nxt])
                nxt += 1
                i += 1
            elif b < 0x80:
                fm.pieces.append(Str(Buf('lit', data=bytes(data[i + 1:i + 1 + b])), 0, b))
                i += 1 + b
            else:
                raise Unsupported('fmt template opcode 0x%02x' % b)
        if nxt != len(fa.args):
            raise Unsupported('fmt template does not use all arguments')
        return Ok(Tuple([]))
    if g == 'std::fmt::Formatter::write_str':
        fm = deref(a[0])
        fm.pieces.append(deref(a[1]))
        return Ok(Tuple([]))
    if g == 'std::option::Option::unwrap_or_default':
        if a[0].variant == 'Some':
            return a[0].fields[0]
        if 'Option::<usize>' in f or 'Option::<u16>' in f or 'Option::<u8>' in f:
            return 0
        raise Unsupported(f)
    if g == 'std::option::Option::unwrap_or':
        return a[0].fields[0] if a[0].variant == 'Some' else a[1]
    if g == 'std::option::Option::take':
        ref = a[0]
        cur = deref(ref)
        if ref.path:
            holder = proj_get(ref.cell.v, ref.path[:-1])
            k, idx = ref.path[-1]
            if isinstance(holder, Tuple):
                holder.items[idx] = NoneV()
            else:
                holder.fields[idx] = NoneV()
        else:
            ref.cell.v = NoneV()
        return cur
    raise Unsupported('call ' + func)
