"""Minimal parser for rustc -Zunpretty=mir text (prototype)."""
import re, sys

class Fn:
    def __init__(self, name, sig):
        self.name = name; self.sig = sig
        self.args = []      # local indices
        self.types = {}     # local idx -> type string
        self.blocks = {}    # bb idx -> (stmts[str], term str)
        self.cleanup = set()
        self.const_value = None
    def __repr__(self): return f"<Fn {self.name}>"

def split_top(s, sep=','):
    """split s on sep at bracket depth 0 (handles (), [], {}, <>, quotes)."""
    out=[]; depth=0; cur=[]; i=0; n=len(s); q=None
    while i<n:
        c=s[i]
        if q:
            cur.append(c)
            if c=='\\': cur.append(s[i+1]); i+=1
            elif c==q: q=None
        elif c in '"':
            q=c; cur.append(c)
        elif c=="'" and re.match(r"'(\\.|[^\\'])'", s[i:]):   # char literal
            m=re.match(r"'(\\.|\\x..|\\u\{[0-9a-f]+\}|[^\\'])'", s[i:])
            cur.append(m.group(0)); i+=len(m.group(0))-1
        elif c in '([{': depth+=1; cur.append(c)
        elif c in ')]}': depth-=1; cur.append(c)
        elif c=='<' : depth+=1; cur.append(c)
        elif c=='>' and s[i-1]!='-' and s[i-1]!='=': depth-=1; cur.append(c)
        elif c==sep and depth==0:
            out.append(''.join(cur).strip()); cur=[]
        else: cur.append(c)
        i+=1
    t=''.join(cur).strip()
    if t: out.append(t)
    return out

def split_const_head(rest, eq):
    """`NAME: TYPE<eq>VALUE` -> (NAME, TYPE, VALUE); NAME may itself contain `: ` (impl spans `file:l:c: l:c`):
    the separator is the last `: ` before the first occurrence of <eq>"""
    k = rest.find(eq)
    if k < 0: return None
    j = rest.rfind(': ', 0, k)
    if j < 0: return None
    return rest[:j], rest[j+2:k], rest[k+len(eq):]

def parse_mir(text):
    fns = {}
    consts = {}
    lines = text.split('\n')
    i=0; n=len(lines)
    while i<n:
        ln = lines[i]
        m = re.match(r'^(fn|const|static) (.*)$', ln)
        if not m: i+=1; continue
        kind = m.group(1); rest = m.group(2)
        if kind in ('const','static') and not rest.rstrip().endswith('{'):
            # const NAME: TYPE = const VALUE;
            mm = split_const_head(rest, ' = const ')
            if mm and mm[2].endswith(';'): consts[mm[0]] = ('lit', mm[2][:-1], mm[1])
            i+=1; continue
        # body item
        if kind=='fn':
            mm = re.match(r'^(.*?)\((.*)\) -> (.*) \{$', rest)
            name = mm.group(1); f = Fn(name, rest)
            for a in split_top(mm.group(2)):
                am = re.match(r'^_(\d+): (.*)$', a)
                if am: f.args.append(int(am.group(1))); f.types[int(am.group(1))]=am.group(2)
            f.types[0]=mm.group(3)
        else:
            mm = split_const_head(rest, ' = {')
            name = mm[0]; f = Fn(name, rest); f.types[0]=mm[1]
        i+=1
        cur=None
        while i<n and lines[i] != '}':
            l = lines[i].strip()
            lm = re.match(r'^let (mut )?_(\d+): (.*);$', l)
            if lm: f.types[int(lm.group(2))]=lm.group(3)
            bm = re.match(r'^bb(\d+)( \(cleanup\))?: \{$', l)
            if bm:
                cur=int(bm.group(1)); stmts=[]
                if bm.group(2): f.cleanup.add(cur)
                i+=1
                while lines[i].strip()!='}':
                    s=lines[i].strip()
                    # statements may span a single line only in this dump
                    stmts.append(s); i+=1
                f.blocks[cur]=(stmts[:-1], stmts[-1])
            i+=1
        if kind=='fn':
            fns.setdefault(name, []).append(f)
        else:
            consts[name]=('body', f)
        i+=1
    return fns, consts

if __name__=='__main__':
    fns, consts = parse_mir(open(sys.argv[1]).read())
    print(len(fns), len(consts))
    for k in list(fns)[:5]: print(k, fns[k][0].args, len(fns[k][0].blocks))
