"""v1 property obligations for Engine M (C01, C03, C04, C05, C12, C15, C16, C18)."""
import json, os, re, subprocess, sys, time, glob
import z3
from core import *
import models
import v1sum
from oracles import Oracle, SP, CR, LF

VERIF = os.path.dirname(os.path.dirname(os.path.abspath(__file__)))

V1_4 = ['str', 'bytes', 'fromstr_addresses', 'fromstr_header']
SPECS = {
    'C18': {'kinds': ['str', 'bytes'], 'lmax': {'quick': 112, 'thorough': 128},
            'obligations': [('c18_final', ['str', 'bytes']), ('c18_witness', ['str', 'bytes'])]},
    'C03': {'kinds': ['str', 'bytes', 'fromstr_addresses', 'fromstr_header'], 'lmax': {'quick': 112, 'thorough': 128},
            'obligations': [('c03_nopanic', V1_4)]},
    'C01': {'kinds': ['str', 'bytes'], 'lmax': {'quick': 112, 'thorough': 128},
            'obligations': [('c01_accept_iff', ['str', 'bytes']), ('c01_decode', ['str', 'bytes'])]},
}

MODEL_LIST = [
    'std models (Engine M trusted base, /verif/mirsym/models.py): str::len/is_empty/as_bytes, cmp::min, str::find::<char>, slice::Iter::position(closure), '
    'Index<RangeTo|Range|RangeFrom> for str (range + char-boundary panics) and [u8], str::from_utf8 (Unicode table 3-7 automaton), '
    'str::splitn + SplitN::next (count/cursor/finished state machine over the closure predicate taken from its own MIR), Peekable::{next,peek,next_if}, '
    'Option::{ok_or,filter,is_some,is_none,take,unwrap_or,unwrap_or_default}, Result::{map_err,is_err,is_ok}, Try::branch, FromResidual::from_residual (From resolved to the crate impl), '
    'str::{starts_with,ends_with}::<&str>, starts_with::<char>, PartialEq for str, str::parse::<u16> (from_str_radix 10, exact error order), Cow deref/to_string, Clone',
    'str::parse::<Ipv4Addr|Ipv6Addr>: uninterpreted ok/val of the field, constrained only by: accepted text is non-empty, <= 15/45 bytes, alphabet [0-9.] / [0-9a-fA-F:.]; '
    'counterexamples are re-solved with every address field drawn from a dictionary of genuine valid/invalid texts whose truth is obtained from the real std parser',
]
ASSUMPTIONS = [
    'the std models listed under stubs_and_models transcribe the documented behaviour of std (validated on every run against the native crate on one witness per path and on the repo\'s own test literals)',
    'rustc\'s -Zunpretty=mir dump (nightly, overflow-checks=on, debug-assertions=off) is the MIR that is compiled; optimisations preserve its semantics',
    'z3 answers unsat only when the query is unsatisfiable',
    'v1 inputs longer than LMAX bytes are outside the claim',
]

INC_CACHE = {}
RENDER_VERSION = '1'


def result_type(kind):
    kind = v1sum.base(kind)
    if kind == 'str_views':
        kind = 'str'
    return {'str': "std::result::Result<v1::model::Header<'_>, v1::error::ParseError>",
            'bytes': "std::result::Result<v1::model::Header<'_>, v1::error::BinaryParseError>",
            'fromstr_addresses': 'std::result::Result<v1::model::Addresses, v1::error::ParseError>',
            'fromstr_header': "std::result::Result<v1::model::Header<'static>, v1::error::ParseError>"}[kind]


def annotate(prog, kind, paths, ctx=None):
    """classify each outcome by *executing the MIR* of PartialResult::{is_incomplete,is_complete}.
    Normally the flags only depend on the (concrete) variant. If an edited classification looks into a payload
    (e.g. `Utf8Error::error_len`), the path is split by a small solver-backed exploration of the two flag
    functions under the path condition, so that every resulting path again has concrete flags."""
    ex = v1sum.new_exec(prog, [], 0)
    rt = result_type(kind)
    out = []
    for p in paths:
        p.witness = None
        if p.outcome[0] != 'ret':
            p.inc = None
            p.comp = None
            out.append(p)
            continue
        v = p.outcome[1]
        try:
            ex.begin([], replay_only=True)
            p.inc = models.dispatch(ex, '<%s as PartialResult>::is_incomplete' % rt, [Ref(Cell(v))], {'generics': {}})
            ex.begin([], replay_only=True)
            p.comp = models.dispatch(ex, '<%s as PartialResult>::is_complete' % rt, [Ref(Cell(v))], {'generics': {}})
            if not isinstance(p.inc, bool) or not isinstance(p.comp, bool):
                raise Unsupported('is_incomplete / is_complete not concrete on a path outcome')
            out.append(p)
        except Unsupported:
            if ctx is None:
                raise
            out += _split_by_flags(prog, ctx, rt, p)
    if len(out) != len(paths) or any(a is not b for a, b in zip(out, paths)):
        for i, p in enumerate(out):
            p.idx = i
        paths[:] = out


def _split_by_flags(prog, ctx, rt, p):
    ex2 = v1sum.new_exec(prog, [ctx], ctx.lmax)
    ex2.suffix = '%s_fl%d' % (ctx.suffix, p.idx)
    v = p.outcome[1]

    def run(e):
        for kind_, c in p.items:
            e.assume(c, kind_)
        inc = models.dispatch(e, '<%s as PartialResult>::is_incomplete' % rt, [Ref(Cell(v))], {'generics': {}})
        comp = models.dispatch(e, '<%s as PartialResult>::is_complete' % rt, [Ref(Cell(v))], {'generics': {}})
        return Tuple([inc, comp])
    res = explore(ex2, run, base_axioms=ctx.axioms)
    out = []
    for sc, items, outc, notes in res:
        if outc[0] != 'ret' or not all(isinstance(x, bool) for x in outc[1].items):
            raise Unsupported('is_incomplete / is_complete panic or stay symbolic on a path outcome')
        q = v1sum.Path(p.script, items, p.outcome, p.notes, p.idx)
        q.witness = None
        q.inc, q.comp = outc[1].items
        out.append(q)
    if not out:
        raise Unsupported('classification of a path outcome has no feasible case')
    return out


def is_ok_unknown(p):
    if p.kind() != 'Ok':
        return False
    v = p.outcome[1].fields[0]
    return isinstance(v, Struct) and v.get('addresses').variant == 'Unknown'


def relevant(obname, p):
    if obname in ('c05_prefix_incomplete_long', 'c04_trailer_independent_long'):
        return is_ok_unknown(p)
    if obname in ('c05_prefix_incomplete', 'c04_trailer_independent', 'c04_header_is_line'):
        return p.kind() == 'Ok'
    if obname == 'c18_final':
        return p.kind() == 'Err' and p.inc
    if obname == 'c18_witness':
        # a handful of complete verdicts is enough for the vacuity guard
        return p.kind() == 'Ok' or (p.kind() == 'Err' and not p.inc and p.idx % 16 == 0)
    if obname == 'c03_nopanic':
        return True
    if obname == 'c03_views_nopanic':
        return p.kind() == 'Ok'
    if obname == 'c01_accept_iff':
        return True
    if obname == 'c01_decode':
        return p.kind() == 'Ok'
    return True


def functions_encoded(prog, kinds):
    names = set()
    for k in kinds:
        if k == 'str_views':
            names |= {n for n in prog.fns if 'src/v1/model.rs' in n and (n.endswith('::protocol') or n.endswith('::addresses_str') or n.endswith('::fmt'))}
            k = 'str'
        names.add(v1sum.entry_name(prog, k))
    if not kinds:
        return []
    names |= {n for n in prog.fns if n.startswith('v1::parse_header') or n.startswith('v1::parse_line') or n.startswith('v1::is_final') or n.startswith('v1::parse_addresses')}
    names |= {n for n in prog.fns if 'src/lib.rs:25' in n or 'src/lib.rs:34' in n or 'src/lib.rs:50' in n or n == 'PartialResult::is_complete'}
    return sorted(names)


# ------------------------------------------------------------------ known findings
def load_known():
    try:
        return json.load(open(os.path.join(VERIF, 'known_findings.json')))['findings']
    except FileNotFoundError:
        return []


def open_roles(pid):
    return [e['role'] for e in load_known() if e['property'] == pid and e['status'] == 'open']


def role_description(pid, role):
    for e in load_known():
        if e['property'] == pid and e['role'] == role:
            return e['description']
    return role


ROLES = {}   # role name -> fn(ctx, oracle) -> formula over the input


# ------------------------------------------------------------------ address dictionary (realisable witnesses)
V4_VALID = [b'1.2.3.4', b'255.255.255.255', b'0.0.0.0', b'10.0.0.1', b'192.168.100.200', b'9.9.9.9']
V4_INVALID = [b'', b'256.1.1.1', b'01.2.3.4', b'1.2.3', b'1.2.3.4.5', b'1..2.3', b'::1', b'.', b'1.2.3.', b'999']
V6_VALID = [b'::', b'::1', b'1:2:3:4:5:6:7:8', b'ffff:ffff:ffff:ffff:ffff:ffff:ffff:ffff', b'::ffff:1.2.3.4', b'fe80::1', b'a::b']
V6_INVALID = [b'', b'1.2.3.4', b':::', b'1:2:3:4:5:6:7:8:9', b'12345::', b':', b'1:2', b'::1::', b'a', b'1::2::3']
_TRUTH = {}


def addr_truth(fam, text):
    """(ok, value) from the real std parser via the native replay binary"""
    key = (fam, text)
    if key not in _TRUTH:
        import natrun
        todo = [(f, t) for f in (4, 6) for t in set(V4_VALID + V4_INVALID + V6_VALID + V6_INVALID + [text]) if (f, t) not in _TRUTH]
        lines = natrun.native([('ip%d' % f, t) for f, t in todo])
        for (f, t), line in zip(todo, lines):
            _TRUTH[(f, t)] = (True, int(line.split()[1])) if line.startswith('Ok') else (False, None)
    return _TRUTH[key]


def content_is(ctx, s, e, text):
    return z3.And(Z(e) - Z(s) == len(text), *[ctx.S(Z(s) + i) == b for i, b in enumerate(text)])


def realizable(ctx, p):
    """constraints forcing every address field examined on path p to a genuine text of the dictionary"""
    cs = []
    for note in p.notes:
        if note[0] != 'addr':
            continue
        _, fam, s, e, ok = note
        ok_fn, val_fn = (ctx.ok4, ctx.val4) if fam == 4 else (ctx.ok6, ctx.val6)
        pool = (V4_VALID if fam == 4 else V6_VALID) if ok else (V4_INVALID if fam == 4 else V6_INVALID)
        alts = []
        for t in pool:
            tr, val = addr_truth(fam, t)
            if tr != ok:
                continue
            a = content_is(ctx, s, e, t)
            if ok:
                a = z3.And(a, val_fn(Z(s), Z(e)) == val)
            alts.append(a)
        cs.append(z3.Or(alts))
    return cs


def oracle_realizable(ctx, fields):
    """same for the oracle's own field positions: [(fam, s, e, guard)] -> under `guard` the field is a
    dictionary text and ok() has its real truth"""
    cs = []
    for fam, s, e, guard in fields:
        ok_fn, val_fn = (ctx.ok4, ctx.val4) if fam == 4 else (ctx.ok6, ctx.val6)
        alts = []
        for t in (V4_VALID + V4_INVALID if fam == 4 else V6_VALID + V6_INVALID):
            tr, val = addr_truth(fam, t)
            a = z3.And(content_is(ctx, s, e, t), ok_fn(Z(s), Z(e)) == tr)
            if tr:
                a = z3.And(a, val_fn(Z(s), Z(e)) == val)
            alts.append(a)
        cs.append(z3.Implies(guard, z3.Or(alts)))
    return cs


def dictionary_axioms(ctx, lit):
    """ground truth of ok4/ok6/val4/val6 on every SP/CR-delimited token of a concrete literal"""
    cs = []
    toks = []
    start = 0
    for i, b in enumerate(lit + b' '):
        if b in (SP, CR):
            toks.append((start, i))
            start = i + 1
    for s, e in toks:
        t = lit[s:e]
        for fam, okf, valf in ((4, ctx.ok4, ctx.val4), (6, ctx.ok6, ctx.val6)):
            tr, val = addr_truth(fam, t)
            cs.append(okf(s, e) == tr)
            if tr:
                cs.append(valf(s, e) == val)
    return z3.And(cs) if cs else z3.BoolVal(True)


# ------------------------------------------------------------------ rendering (for validation)
def ev(m, x):
    if isinstance(x, (int, bool)):
        return x
    v = m.eval(x, model_completion=True)
    if z3.is_int_value(v):
        return v.as_long()
    return z3.is_true(v)


def render_addresses(a, m):
    if a.variant == 'Unknown':
        return 'Unknown'
    ip = a.fields[0]
    sa, sp, da, dp = ip.get('source_address'), ip.get('source_port'), ip.get('destination_address'), ip.get('destination_port')
    return '%s %d %d %d %d' % (a.variant, ev(m, sa.val), ev(m, da.val), ev(m, sp), ev(m, dp))


def render_err(e):
    if e.ty.endswith('BinaryParseError'):
        if e.variant == 'Parse':
            return render_err(e.fields[0])
        return 'InvalidUtf8'
    if e.variant in ('InvalidSourcePort', 'InvalidDestinationPort'):
        p = e.fields[0]
        return '%s(%s)' % (e.variant, 'None' if p.variant == 'None' else p.fields[0].ekind)
    return e.variant


def render(p, kind, m):
    if p.outcome[0] == 'panic':
        return 'Panic'
    if kind == 'str_views':
        v = p.outcome[1]
        return 'Ok' if v.variant == 'Ok' else 'Err %s' % render_err(v.fields[0])
    v = p.outcome[1]
    if v.variant == 'Ok':
        x = v.fields[0]
        if kind == 'fromstr_addresses':
            return 'Ok addr=%s' % render_addresses(x, m)
        h = x.get('header')
        s = h.fields[0] if isinstance(h, Enum) else h
        if isinstance(s, Opaque):
            s = s.s
        ln = ev(m, s.len())
        return 'Ok len=%d addr=%s inc=%s' % (ln, render_addresses(x.get('addresses'), m), 'true' if p.inc else 'false')
    e = render_err(v.fields[0])
    if kind.startswith('fromstr'):
        return 'Err %s' % e
    return 'Err %s inc=%s' % (e, 'true' if p.inc else 'false')


def same_outcome(want, line):
    if want == 'Panic':
        return line.startswith('Panic')
    if want == 'Ok':
        return line.startswith('Ok ')
    return want == line


def test_literals(prog):
    """string / byte-string literals of the repo's own v1 unit tests and doc examples"""
    lits = set()
    for rel in ('src/v1/mod.rs', 'src/v1/model.rs', 'src/lib.rs'):
        txt = prog.src(rel)
        for m in re.finditer(r'b?"((?:[^"\\]|\\.)*)"', txt):
            raw = m.group(1)
            if 'PROXY' not in raw and '\\r' not in raw and not raw.startswith('P'):
                continue
            try:
                lits.add(unescape(raw.replace('\\\n', '')))
            except Exception:
                pass
    extra = [b'', b'\r', b'\r\n', b'PROXY', b'PROXY \r\n', b'P', b'PROXY UNKNOWN\r\n', b'PROXY UNKNOWN \n', b'PROXY TCP4 1.2.3.4 5.6.7.8 +80 443\r\n',
             b'PROXY TCP4 1.2.3.4 5.6.7.8 80 \r\n', b'PROXY TCP6 ::1 ::2 0 65535\r\nGET /', b'PROXY UNKNOWN a b c d e\r\n', b'PROXY TCP4 1.2.3.4\r\n',
             b'PROXY TCP4 1.2.3.4 5.6.7.8 65536 1\r\n', b'PROXY TCP4 1.2.3.4 5.6.7.8 00 1\r\n', b'PROXY UNKNOWN\rX', b'PROXY U\rU', b'PROXY TCP4 1.2.3.4 5.6.7.8 80 ']
    return sorted(lits | set(extra))


# ------------------------------------------------------------------ solving helpers
def new_solver(ctx, extra_axioms=()):
    s = z3.Solver()
    s.set('arith.solver', 2)
    s.set('timeout', int(os.environ.get('VERIF_M_QUERY_TIMEOUT_MS', '600000')))
    for a in ctx.axioms:
        s.add(a)
    for a in extra_axioms:
        s.add(a)
    return s


CROSS = {'n': 0, 'agree': 0, 'disagree': [], 'inconclusive': 0}


def cross_check(s, verdict):
    """thorough tier: re-decide the query with a second solver build (/usr/bin/z3 4.8.12 CLI, SMT-LIB2 text);
    an `(error` line or a timeout is inconclusive, a different verdict is a disagreement"""
    import subprocess, tempfile
    if os.environ.get('VERIF_M_CROSS') != '1':
        return None
    # large obligations (thousands of queries) are cross-checked on a deterministic 1-in-N sample
    CROSS['n'] += 1
    mod = int(os.environ.get('VERIF_M_CROSS_MOD', '1'))
    if mod > 1 and CROSS['n'] % mod != 0:
        return None
    txt = '(set-logic ALL)\n' + s.to_smt2()
    with tempfile.NamedTemporaryFile('w', suffix='.smt2', delete=False, dir=os.path.join(VERIF, '.build')) as f:
        f.write(txt)
        path = f.name
    try:
        r = subprocess.run(['/usr/bin/z3', '-T:180', 'smt.arith.solver=2', path], capture_output=True, text=True, timeout=200)
        out = r.stdout.strip().split('\n')
        ans = out[0].strip() if out else ''
        if '(error' in r.stdout or ans not in ('sat', 'unsat'):
            return 'inconclusive'
        return 'agree' if ans == verdict else 'disagree'
    except Exception:
        return 'inconclusive'
    finally:
        os.remove(path)


def decide(ctx, pc, neg, label, make_cex, realize=(), roles=(), oracle_defs=()):
    """unsat -> held. sat -> re-solve with realisable address fields, build the counterexample.
    Known-finding roles: the violation query excludes every open role; each role is queried separately."""
    out = []
    t0 = time.time()
    s = new_solver(ctx, oracle_defs)
    for c in pc:
        s.add(c)
    s.add(neg)
    s.push()
    for rname, rformula in roles:
        s.add(z3.Not(rformula))
    r = s.check()
    rec = {'label': label, 'solver_s': 0.0}
    if r in (z3.sat, z3.unsat):
        cc = cross_check(s, 'sat' if r == z3.sat else 'unsat')
        if cc:
            rec['cross'] = cc
    if r == z3.unsat:
        rec['status'] = 'unsat'
    elif r == z3.unknown:
        rec['status'] = 'unknown'
        rec['detail'] = s.reason_unknown()
    else:
        rec['status'] = 'sat'
        s.push()
        for c in realize:
            s.add(c)
        r2 = s.check()
        if r2 == z3.sat:
            rec['cex'] = make_cex(s.model())
        else:
            rec['cex'] = None
            rec['detail'] = 'satisfiable only with address texts outside the dictionary (%s)' % r2
        s.pop()
    s.pop()
    rec['solver_s'] = time.time() - t0
    out.append(rec)
    for rname, rformula in roles:
        t1 = time.time()
        s.push()
        s.add(rformula)
        for c in realize:
            s.add(c)
        r = s.check()
        rr = {'label': label + ' [role ' + rname + ']', 'role': rname, 'solver_s': 0.0}
        if r == z3.sat:
            rr['status'] = 'sat'
            rr['cex'] = make_cex(s.model())
        elif r == z3.unsat:
            rr['status'] = 'unsat'
        else:
            rr['status'] = 'unknown'
        s.pop()
        rr['solver_s'] = time.time() - t1
        out.append(rr)
    return out


def witness(ctx, pc, formula, group, oracle_defs=(), extra_axioms=()):
    """vacuity guard: `formula` must be satisfiable together with this path (sat expected). Grouped by `group`:
    the driver requires at least one satisfied witness per group."""
    t0 = time.time()
    s = new_solver(ctx, list(oracle_defs) + list(extra_axioms))
    s.set('timeout', 60000)
    for c in pc:
        s.add(c)
    s.add(formula)
    r = s.check()
    rec = {'label': 'witness:' + group, 'witness_group': group, 'solver_s': time.time() - t0,
           'status': 'wit_ok' if r == z3.sat else 'wit_fail'}
    if r == z3.sat:
        rec['input'] = repr(v1sum.model_bytes(s.model(), ctx))
    return rec


ENTRY_OF = {'str': 'v1_str', 'bytes': 'v1_bytes', 'fromstr_addresses': 'v1_fromstr_addresses', 'fromstr_header': 'v1_fromstr_header'}


def cex_single(ctx, kind, m, violated_if, summary, **kw):
    b = v1sum.model_bytes(m, ctx)
    d = {'runs': [[ENTRY_OF[kind], b.hex()]], 'violated_if': violated_if, 'summary': '%s on %s input %r' % (summary, kind, b)}
    d.update(kw)
    return d


def roles_for(W, ctx, orc):
    return [(r, ROLES[r](ctx, orc)) for r in W['roles'] if r in ROLES]


# ------------------------------------------------------------------ replay of counterexamples
def outcome_fields(line):
    d = {'raw': line, 'panic': line.startswith('Panic'), 'ok': line.startswith('Ok'), 'err': None, 'inc': None}
    m = re.match(r'^Err (\S+)', line)
    if m:
        d['err'] = m.group(1)
    m = re.search(r'inc=(true|false)', line)
    if m:
        d['inc'] = m.group(1) == 'true'
    m = re.search(r'len=(\d+)', line)
    if m:
        d['len'] = int(m.group(1))
    m = re.search(r'addr=(.*?)( inc=|$)', line)
    if m:
        d['addr'] = m.group(1)
    return d


def replay_cex(cex, native):
    """True = the real crate (dev or release build) exhibits what the property forbids."""
    if cex.get('glue'):
        return replay_glue(cex, native)
    if cex.get('v2'):
        import props_v2
        return props_v2.replay(cex, native)
    reqs = [(e, bytes.fromhex(h)) for e, h in cex['runs']]
    verdicts = []
    notes = []
    for prof in ('dev', 'release'):
        lines = native(reqs, prof)
        o = [outcome_fields(l) for l in lines]
        v = violated(cex, o)
        verdicts.append(v)
        notes.append('%s: %s => %s' % (prof, ' | '.join(lines), 'reproduces' if v else 'does not reproduce'))
    cex['native'] = notes
    if any(v for v in verdicts):
        return True, '; '.join(notes)
    if cex.get('corpus') == 'c16':
        # the candidate came from a modular check in which the callee's verdict is an uninterpreted choice: the
        # solver's witness need not make the real parser take that choice. Confirm or refute on accepted / rejected
        # lines with and without trailers (same entries, same predicate).
        for inp in C16_CORPUS:
            reqs2 = [(e, inp) for e, _ in reqs]
            for prof in ('dev', 'release'):
                lines = native(reqs2, prof)
                if violated(cex, [outcome_fields(l) for l in lines]):
                    cex['runs'] = [[e, inp.hex()] for e, _ in reqs]
                    note = '%s on corpus input %r: %s => reproduces' % (prof, inp, ' | '.join(lines))
                    cex['native'] = notes + [note]
                    cex['summary'] = cex.get('summary', '') + ' [confirmed on %r]' % inp
                    return True, note
        notes.append('no input of the %d-line C16 corpus reproduces it either' % len(C16_CORPUS))
    return False, '; '.join(notes)


C16_CORPUS = [h + t for h in (b'PROXY UNKNOWN\r\n', b'PROXY UNKNOWN extra text\r\n', b'PROXY TCP4 1.2.3.4 5.6.7.8 1 2\r\n', b'PROXY TCP6 ::1 ::2 443 65535\r\n',
                              b'PROXY UNKNOWN \xc3\xa9\r\n', b'PROXY TCP4 1.2.3.4 5.6.7.8 1 2\rX', b'PROXY TCP4 1.2.3.4', b'PROXY UNKNOWN\r', b'HELLO\r\n')
              for t in (b'', b'X', b'hello', b'\r\n', b'\n', b'\xc3\xa9', b' ' * 80)]


def views_wrong(line, inp):
    """independent Python check of the v1_views line against the input bytes"""
    m = re.match(r'^Ok protocol=(\w*) addresses_str=(\w*) display=(\w*) owned_eq=(true|false)$', line)
    if not m:
        return True
    proto, astr, disp = (bytes.fromhex(x) for x in m.group(1, 2, 3))
    c = inp.index(b'\r')
    hdr = inp[:c + 2]
    body = hdr[6:c]
    second = body.split(b' ')[0]
    rest = body[len(second):]
    if rest.startswith(b' '):
        rest = rest[1:]
    return not (proto == second and astr == rest and disp == hdr and m.group(4) == 'true')


def replay_glue(cex, native):
    """A glue-table violation is stated over abstract parser results; it is confirmed natively by running
    the three real entry points on a corpus of inputs that realises every reachable (v2 class, v1 class)
    pair and checking the same decision table on the real results."""
    corpus = [b'', b'\r', b'\r\n\r\n\x00\r\nQUIT\n', b'\r\n\r\n\x00\r\nQUIT\n\x21\x11\x00\x0c' + bytes(12), b'\r\n\r\n\x00\r\nQUIT\n\x21\x11\x00\x0c' + bytes(5),
              b'\r\n\r\n\x00\r\nQUIT\n\x31\x11\x00\x0c' + bytes(12), b'PROXY UNKNOWN\r\n', b'PROXY TCP4 1.2.3.4 5.6.7.8 1 2\r\n', b'PROXY TCP4 1.2.3.4',
              b'PROX', b'PROXY', b'HELLO\r\n', b'PROXY TCP9 x\r\n', b'P', b'\x00', b'PROXY UNKNOWN \xff\r\n', b'PROXY TCP4 1.2.3.4 5.6.7.8 1 2\rX']
    # lines around the 107-byte limit (CR at offsets 104..107, with and without LF / trailer), long inputs without CR,
    # v2 headers with large payloads and trailers, every truncation of the signature
    sig = b'\r\n\r\n\x00\r\nQUIT\n'
    for cr in (104, 105, 106, 107):
        line = b'PROXY UNKNOWN ' + b'a' * (cr - 14)
        corpus += [line + b'\r', line + b'\r\n', line + b'\r\nGET / HTTP/1.1', line + b'\rX', (b'PROXY TCP4 ' + b'1' * (cr - 11)) + b'\r\n']
    corpus += [b'PROXY UNKNOWN' + b' ' * 93, b'PROXY UNKNOWN' + b' ' * 94, b'PROXY UNKNOWN' + b' ' * 200, b'x' * 107, b'x' * 106, b'PROXY TCP6 ::1 ::1 1 2\r\n' + b'z' * 300]
    corpus += [sig[:k] for k in range(1, 12)] + [sig + b'\x21', sig + b'\x21\x11\x00', sig + b'\x21\x11\x01\x2c' + bytes(300), sig + b'\x21\x11\x01\x2c' + bytes(299),
               sig + b'\x21\x11\x01\x2c' + bytes(400), sig + b'\x20\x00\x00\x00', sig + b'\x20\x00\x00\x00PROXY UNKNOWN\r\n', sig + b'\x21\x21\x00\x24' + bytes(36),
               sig + b'\x21\x31\x00\xd8' + bytes(216), sig + b'\x11\x11\x00\x0c' + bytes(12), sig + b'\x22\x11\x00\x0c' + bytes(12), sig + b'\x21\x41\x00\x0c' + bytes(12),
               sig + b'\x21\x13\x00\x0c' + bytes(12), sig + b'\x21\x11\x00\x0b' + bytes(12), sig + b'\x21\x11\xff\xff' + bytes(65535), sig + b'\x21\x11\xff\xff' + bytes(65534)]
    bad = []
    for prof in ('dev', 'release'):
        a = native([('auto', c) for c in corpus], prof)
        v2 = native([('v2', c) for c in corpus], prof)
        v1 = native([('v1_bytes', c) for c in corpus], prof)
        for c, la, l2, l1 in zip(corpus, a, v2, v1):
            f2, f1 = outcome_fields(l2), outcome_fields(l1)
            if f2['ok'] or f2['inc']:
                want = 'V2 ' + l2 + ' complete=' + ('false' if f2['inc'] else 'true')
            else:
                want = 'V1 ' + l1 + ' complete=' + ('false' if f1['inc'] else 'true')
            if la != want:
                bad.append('%s: %r -> `%s`, expected `%s`' % (prof, c, la, want))
    cex['native'] = bad[:6]
    return (True, '; '.join(bad[:3])) if bad else (False, 'the real entry points follow the decision table on the %d-input corpus' % len(corpus))


def violated(cex, o):
    k = cex['violated_if']
    if k == 'panics':
        return o[0]['panic']
    if k == 'incomplete':
        return o[0]['inc'] is True
    if k == 'accepted':
        return o[0]['ok']
    if k == 'not_accepted':
        return not o[0]['ok']
    if k == 'decodes_differently':
        return o[0]['ok'] and (o[0].get('len') != cex['want_len'] or o[0].get('addr') != cex['want_addr'])
    if k == 'second_not_incomplete':
        return o[0]['ok'] and o[1]['inc'] is not True
    if k == 'results_differ':
        return o[0]['ok'] and (o[0].get('len'), o[0].get('addr'), o[0]['ok']) != (o[1].get('len'), o[1].get('addr'), o[1]['ok'])
    if k == 'not_error':
        return o[0]['err'] is None or o[0]['err'].split('(')[0] not in cex['want_err'] or o[0]['inc'] is True
    if k == 'outcomes_differ':
        a = [(x['ok'], x['panic'], x['err'], x.get('len'), x.get('addr')) for x in o]
        return any(y != a[0] for y in a[1:])
    if k == 'outcomes_differ_c16':
        # same header / addresses / error, or (window cut inside a character) an error or panic-free error in both
        a = [(x['ok'], x['err'], x.get('addr')) for x in o]
        if any(x['panic'] for x in o):
            return True
        if all(x['ok'] and x.get('len') is not None for x in o) and len({x.get('len') for x in o}) > 1:
            return True         # both accept but report header texts of different lengths
        return a[0] != a[1] and not (a[0][0] is False and a[1][0] is False and cex.get('both_errors_ok'))
    if k == 'write_to':
        return 'ok=false' in o[0]['raw'] or o[0]['panic']
    if k.startswith('builder_'):
        raw = o[0]['raw']
        if 'legit=false' in raw:
            return True
        if k == 'builder_c09' and 'c09=false' in raw:
            return True
        if k == 'builder_c10' and 'c10=false' in raw:
            return True
        return False
    if k == 'fmt_roundtrip':
        m = re.search(r'len=(\d+) roundtrip=(true|false)', o[0]['raw'])
        return (not m) or m.group(2) == 'false' or int(m.group(1)) > 107
    if k == 'views_wrong':
        return views_wrong(o[0]['raw'], bytes.fromhex(cex['runs'][0][1]))
    if k == 'not_all_errors':
        return any(not x['err'] and not x['panic'] for x in o) or any(x['panic'] for x in o)
    raise Unsupported('unknown replay predicate ' + k)


# ------------------------------------------------------------------ obligations
def ob_c18_witness(W, kind, idx, params):
    """vacuity guard of C18: the precondition is satisfiable on paths with a complete verdict"""
    import wstate
    ctx, paths = wstate.w_summary(kind)
    p = paths[idx]
    orc = Oracle(ctx)
    return [witness(ctx, p.pc, orc.prefix_of_line_seen(), 'c18 precondition (line break or 107 bytes seen) holds on a %s verdict (%s entry)' % ('success' if p.kind() == 'Ok' else 'terminal', kind), oracle_defs=orc.defs)]


def ob_c18_final(W, kind, idx, params):
    """C18: once the first CR is followed by at least one more byte, or 107 bytes were supplied without
    any CR, the result is complete: no path with an incomplete verdict is compatible with that."""
    import wstate
    ctx, paths = wstate.w_summary(kind)
    p = paths[idx]
    orc = Oracle(ctx)
    neg = orc.prefix_of_line_seen()
    return decide(ctx, p.pc, neg, 'c18_final:%s:%s' % (kind, p.label()),
                  lambda m: cex_single(ctx, kind, m, 'incomplete', 'verdict %s is flagged incomplete although the line break / 107 bytes have been seen' % p.label()),
                  realize=realizable(ctx, p), roles=roles_for(W, ctx, orc), oracle_defs=orc.defs)


def ob_c03_nopanic(W, kind, idx, params):
    """C03: no feasible path ends in a panic (overflow / index / slice / char-boundary)."""
    import wstate
    ctx, paths = wstate.w_summary(kind)
    p = paths[idx]
    if p.kind() != 'Panic':
        return [{'label': 'c03_nopanic:%s:path%d' % (kind, idx), 'status': 'unsat', 'solver_s': 0.0}]
    orc = Oracle(ctx)
    return decide(ctx, p.pc, z3.BoolVal(True), 'c03_nopanic:%s:%s' % (kind, p.label()),
                  lambda m: cex_single(ctx, kind, m, 'panics', 'panic: %s' % p.outcome[1]),
                  realize=realizable(ctx, p), roles=roles_for(W, ctx, orc), oracle_defs=orc.defs)


# ------------------------------------------------------------------ C01
def ok_parts(p):
    """(header Str, addresses Enum) of an Ok outcome (Header or Addresses result)"""
    x = p.outcome[1].fields[0]
    if isinstance(x, Enum):          # FromStr for Addresses
        return None, x
    h = x.get('header')
    s = h.fields[0] if isinstance(h, Enum) else h
    if isinstance(s, Opaque):        # owned String
        s = s.s
    return s, x.get('addresses')


def oracle_addr_fields(orc):
    t = orc.tcp_fields()
    (a1, b1), (a2, b2), (a3, b3), (a4, b4) = t['f']
    g4, g6 = orc.lit(0, b'PROXY TCP4 '), orc.lit(0, b'PROXY TCP6 ')
    return [(4, a1, b1, g4), (4, a2, b2, g4), (6, a1, b1, g6), (6, a2, b2, g6)]


def ob_c01_accept_iff(W, kind, idx, params):
    """C01 (acceptance): Ok <=> the input starts with a well-formed line G(S, L)."""
    import wstate
    ctx, paths = wstate.w_summary(kind)
    p = paths[idx]
    orc = Oracle(ctx)
    G = orc.wellformed(byte_entry=(v1sum.base(kind) == 'bytes'))
    real = realizable(ctx, p) + oracle_realizable(ctx, oracle_addr_fields(orc))
    roles = roles_for(W, ctx, orc)
    if p.kind() == 'Ok':
        return decide(ctx, p.pc, z3.Not(G), 'c01_accept_only_wellformed:%s:%s' % (kind, p.label()),
                      lambda m: cex_single(ctx, kind, m, 'accepted', 'accepted although the input does not start with a well-formed v1 line'),
                      realize=real, roles=roles, oracle_defs=orc.defs)
    return decide(ctx, p.pc, G, 'c01_accept_all_wellformed:%s:%s' % (kind, p.label()),
                  lambda m: cex_single(ctx, kind, m, 'not_accepted', 'well-formed v1 line rejected with %s' % p.label()),
                  realize=real, roles=roles, oracle_defs=orc.defs)


def ob_c01_decode(W, kind, idx, params):
    """C01 (decoding): on success the protocol, addresses and ports are exactly the ones written,
    source before destination, and the header text is exactly the line through its CRLF."""
    import wstate
    ctx, paths = wstate.w_summary(kind)
    p = paths[idx]
    orc = Oracle(ctx)
    hdr, addrs = ok_parts(p)
    t = orc.tcp_fields()
    (a1, b1), (a2, b2), (a3, b3), (a4, b4) = t['f']
    good = []
    if hdr is not None:
        good += [eq(hdr.start, 0) if is_c(hdr.start) else hdr.start == 0, Z(hdr.end) == orc.c + 2]
        if hdr.buf is not ctx.buf:
            good.append(z3.BoolVal(False))
    if addrs.variant == 'Unknown':
        good.append(orc.lit(0, b'PROXY UNKNOWN'))
    else:
        fam = 4 if addrs.variant == 'Tcp4' else 6
        val = ctx.val4 if fam == 4 else ctx.val6
        ip = addrs.fields[0]
        good += [orc.lit(0, b'PROXY TCP4 ' if fam == 4 else b'PROXY TCP6 '),
                 ip.get('source_address').val == val(Z(a1), Z(b1)),
                 ip.get('destination_address').val == val(Z(a2), Z(b2)),
                 Z(ip.get('source_port')) == orc.port_val(a3, b3),
                 Z(ip.get('destination_port')) == orc.port_val(a4, b4)]
    # decoding is only specified for well-formed lines (acceptance of anything else is c01_accept_iff's business)
    G = orc.wellformed(byte_entry=(v1sum.base(kind) == 'bytes'))
    neg = z3.And(G, z3.Not(z3.And(good)))

    def mk(m):
        b = v1sum.model_bytes(m, ctx)
        return cex_single(ctx, kind, m, 'decodes_differently', 'decoded result differs from what the line says',
                          want_len=ev(m, orc.c) + 2, want_addr=expected_addr(b, ev(m, orc.c)))
    return decide(ctx, p.pc, neg, 'c01_decode:%s:%s' % (kind, p.label()), mk,
                  realize=realizable(ctx, p) + oracle_realizable(ctx, oracle_addr_fields(orc)), roles=roles_for(W, ctx, orc), oracle_defs=orc.defs)


def expected_addr(b, c):
    """what a well-formed line says, computed in Python from the concrete bytes (independent decoder for replay)"""
    line = b[:c]
    parts = line.split(b' ')
    if parts[1] == b'UNKNOWN':
        return 'Unknown'
    fam = 4 if parts[1] == b'TCP4' else 6
    s, d = addr_truth(fam, parts[2])[1], addr_truth(fam, parts[3])[1]
    return 'Tcp%d %d %d %d %d' % (fam, s, d, int(parts[4]), int(parts[5]))


# ------------------------------------------------------------------ relational obligations (two instances)
SPECS['C05'] = {'kinds': ['str', 'bytes'], 'lmax': {'quick': 64, 'thorough': 112},
                'obligations': [('c05_prefix_incomplete', ['str', 'bytes']), ('c05_flags_consistent', ['str', 'bytes'])]}
SPECS['C04'] = {'kinds': ['str', 'bytes'], 'lmax': {'quick': 64, 'thorough': 112},
                'obligations': [('c04_trailer_independent', ['str', 'bytes']), ('c04_header_is_line', ['str', 'bytes'])]}
SPECS['C05']['quick_extra'] = {'kinds': ['str_long', 'bytes_long'], 'lmax': 112, 'obligations': [('c05_prefix_incomplete_long', ['str_long', 'bytes_long'])]}
SPECS['C04']['quick_extra'] = {'kinds': ['str_long', 'bytes_long'], 'lmax': 112, 'obligations': [('c04_trailer_independent_long', ['str_long', 'bytes_long'])]}
SPECS['C16'] = {'kinds': ['str', 'bytes'], 'lmax': {'quick': 112, 'thorough': 128}, 'modular': 'c16_modular',
                'obligations': [], 'thorough_extra': {'kinds': V1_4, 'lmax': 40, 'obligations': [('c16_entries_agree', ['str'])]}}

CHUNK = 45


def chunks(n, size=CHUNK):
    return [(i, min(n, i + size)) for i in range(0, n, size)]


def ascii_range(ctx, lo, hi):
    return ctx.forall_range(lo, hi, 'o_ascii', lambda b: b < 128)


def same_ok_result(p, q, ctx):
    """formula: Ok outcomes of p and q report the same header slice and the same addresses"""
    h1, a1 = ok_parts(p)
    h2, a2 = ok_parts(q)
    cs = []
    if h1 is not None and h2 is not None:
        cs += [Z(h1.start) == Z(h2.start), Z(h1.end) == Z(h2.end)]
    if a1.variant != a2.variant:
        return z3.BoolVal(False)
    if a1.variant != 'Unknown':
        i1, i2 = a1.fields[0], a2.fields[0]
        cs += [i1.get('source_address').val == i2.get('source_address').val,
               i1.get('destination_address').val == i2.get('destination_address').val,
               Z(i1.get('source_port')) == Z(i2.get('source_port')),
               Z(i1.get('destination_port')) == Z(i2.get('destination_port'))]
    return z3.And(cs) if cs else z3.BoolVal(True)


def cex_pair(ctx1, ctx2, kind1, kind2, m, violated_if, summary, **kw):
    b1 = v1sum.model_bytes(m, ctx1)
    n2 = m.eval(ctx2.L, model_completion=True).as_long()
    b2 = bytes(m.eval(ctx2.S(j), model_completion=True).as_long() for j in range(n2))
    d = {'runs': [[ENTRY_OF[kind1], b1.hex()], [ENTRY_OF[kind2], b2.hex()]], 'violated_if': violated_if,
         'summary': '%s: %s %r vs %s %r' % (summary, kind1, b1, kind2, b2)}
    d.update(kw)
    return d


def relevant_rel(obname, p):
    return p.kind() == 'Ok'


def ob_c05_prefix_incomplete(W, kind, idx, params):
    """C05: (S, L) accepted with header [0, k) in US-ASCII  ==>  for every m < k the same entry point on
    (S, m) reports an incomplete result. Second instance = same buffer, own length."""
    import wstate
    ctx, paths = wstate.w_summary(kind)
    p = paths[idx]
    if p.kind() != 'Ok':
        return []
    ctx2, paths2 = wstate.w_summary(kind, '_b', share=ctx)
    hdr, _ = ok_parts(p)
    k = hdr.end
    pre = [ctx2.L < Z(k), ascii_range(ctx, 0, k)]
    orc = Oracle(ctx)
    # the set of paths is exhaustive and pairwise disjoint, so "some non-incomplete path is taken on (S, m)"
    # is "no incomplete path is taken on (S, m)"
    inc = [q for q in paths2 if q.kind() == 'Err' and q.inc]
    none_inc = z3.And([q.neg() for q in inc]) if inc else z3.BoolVal(True)
    return decide(ctx, list(ctx2.axioms) + p.pc + pre, none_inc, 'c05_prefix_incomplete:%s:%s' % (kind, p.label()),
                  lambda m: cex_pair(ctx, ctx2, kind, kind, m, 'second_not_incomplete', 'a proper prefix of an accepted header is not reported incomplete'),
                  realize=realizable(ctx, p), roles=roles_for(W, ctx, orc), oracle_defs=orc.defs)


def ob_c05_prefix_incomplete_long(W, kind, idx, params):
    """the same obligation on the `*_long` summaries (LMAX = 112) for the accepted UNKNOWN lines only: the only
    lines that can be longer than 104 bytes, so that every cut of a 105..107-byte header is covered in the quick tier"""
    return ob_c05_prefix_incomplete(W, kind, idx, params)


def ob_c04_trailer_independent_long(W, kind, idx, params):
    return ob_c04_trailer_independent(W, kind, idx, params)


def ob_c05_flags_consistent(W, kind, idx, params):
    """C05: is_complete is the negation of is_incomplete and a success is never flagged incomplete
    (both flags obtained by executing the MIR of the PartialResult impls on the path outcome)."""
    import wstate
    ctx, paths = wstate.w_summary(kind)
    p = paths[idx]
    if p.kind() == 'Panic':
        return []
    good = (p.comp == (not p.inc)) and not (p.kind() == 'Ok' and p.inc)
    if good:
        return [{'label': 'c05_flags_consistent:%s:path%d' % (kind, idx), 'status': 'unsat', 'solver_s': 0.0}]
    return decide(ctx, p.pc, z3.BoolVal(True), 'c05_flags_consistent:%s:%s' % (kind, p.label()),
                  lambda m: cex_single(ctx, kind, m, 'incomplete', 'is_complete / is_incomplete inconsistent'), realize=realizable(ctx, p))


def ob_c04_trailer_independent(W, kind, idx, params):
    """C04: (S, L) accepted with header [0, k)  ==>  every (S', L') with S' = S on [0, k) and L' >= k
    (any other trailer, or none) is accepted with the identical result. Second instance has its own
    buffer; the address-grammar symbols are linked only on fields that end inside the common part."""
    import wstate
    ctx, paths = wstate.w_summary(kind)
    p = paths[idx]
    if p.kind() != 'Ok':
        return []
    ctx2, paths2 = wstate.w_summary(kind, '_c')
    hdr, _ = ok_parts(p)
    k = hdr.end
    link = [ctx2.L >= Z(k)]
    link.append(z3.And([z3.Implies(Z(k) > j, ctx2.S(j) == ctx.S(j)) for j in range(ctx.lmax + 1)]))
    orc = Oracle(ctx)
    # link the address-grammar symbols of the two buffers on every field of instance 2 that ends inside the common part
    lk = []
    seen = set()
    for q in paths2:
        for note in q.notes:
            if note[0] == 'addr':
                _, fam, s, e, okv = note
                key = (fam, Z(s).get_id(), Z(e).get_id())
                if key in seen:
                    continue
                seen.add(key)
                f2, v2, f1, v1 = (ctx2.ok4, ctx2.val4, ctx.ok4, ctx.val4) if fam == 4 else (ctx2.ok6, ctx2.val6, ctx.ok6, ctx.val6)
                lk.append(z3.Implies(Z(e) <= Z(k), z3.And(f2(Z(s), Z(e)) == f1(Z(s), Z(e)), v2(Z(s), Z(e)) == v1(Z(s), Z(e)))))
    # "instance 2 is not accepted with the identical result" == no Ok path of instance 2 is taken with the same result
    _, a1 = ok_parts(p)
    match = [q for q in paths2 if q.kind() == 'Ok' and ok_parts(q)[1].variant == a1.variant]
    none_same = z3.And([q.neg(extra=same_ok_result(p, q, ctx)) for q in match]) if match else z3.BoolVal(True)
    return decide(ctx, list(ctx2.axioms) + p.pc + link + lk, none_same, 'c04_trailer_independent:%s:%s' % (kind, p.label()),
                  lambda m: cex_pair(ctx, ctx2, kind, kind, m, 'results_differ', 'an accepted header gives a different result when followed by other bytes (or by none)'),
                  realize=realizable(ctx, p), roles=roles_for(W, ctx, orc), oracle_defs=orc.defs)


def ob_c04_header_is_line(W, kind, idx, params):
    """C04: the number of bytes to remove is exactly the length of the reported header, for v1 the
    line through its CRLF: header = S[0, c+2) with c the first CR and S[c+1] = LF."""
    import wstate
    ctx, paths = wstate.w_summary(kind)
    p = paths[idx]
    if p.kind() != 'Ok':
        return []
    orc = Oracle(ctx)
    hdr, _ = ok_parts(p)
    good = z3.And(orc.hascr, Z(hdr.start) == 0, Z(hdr.end) == orc.c + 2, orc.c + 1 < ctx.L, ctx.S(orc.c + 1) == LF)
    return decide(ctx, p.pc, z3.Not(good), 'c04_header_is_line:%s:%s' % (kind, p.label()),
                  lambda m: cex_single(ctx, kind, m, 'accepted', 'reported header is not the line through the first CRLF'),
                  realize=realizable(ctx, p), roles=roles_for(W, ctx, orc), oracle_defs=orc.defs)


def err_equal(p, q):
    """same error: variant (BinaryParseError::Parse unwrapped) and payload kind"""
    return render_err(p.outcome[1].fields[0]) == render_err(q.outcome[1].fields[0])


def ob_c16_entries_agree(W, kind, idx, params):
    """C16: on the same valid-UTF-8 text, TryFrom<&str>, TryFrom<&[u8]>, FromStr for Addresses and FromStr
    for Header give the same outcome whenever the examined window [0, min(c+2, L)) ends on a char
    boundary, and an error in all of them when it does not."""
    import wstate
    ctx, paths = wstate.w_summary('str')
    p = paths[idx]
    orc = Oracle(ctx)
    out = []
    wend = z3.If(orc.hascr, z3.If(orc.c + 2 <= ctx.L, orc.c + 2, ctx.L), ctx.L)
    bnd = z3.Or(wend == ctx.L, z3.Not(z3.And(ctx.S(wend) >= 128, ctx.S(wend) < 192)))
    for other in ('bytes', 'fromstr_addresses', 'fromstr_header'):
        ctx2, paths2 = wstate.w_summary(other, '_' + other[:1] + other[-1:], share=ctx)
        same_len = [ctx2.L == ctx.L]
        if p.kind() == 'Panic':
            out += decide(ctx, p.pc, z3.BoolVal(True), 'c16_entries_agree:str~%s:%s' % (other, p.label()),
                          lambda m, other=other, ctx2=ctx2: cex_single(ctx, 'str', m, 'panics', 'the text entry point panics where the others return'),
                          realize=realizable(ctx, p), roles=roles_for(W, ctx, orc), oracle_defs=orc.defs)
            continue
        # agreeing outcomes of the other entry point (paths are exhaustive + disjoint: "disagree" == "no agreeing path is taken")
        if p.kind() == 'Ok':
            agree_b = [(q, same_ok_result(p, q, ctx)) for q in paths2 if q.kind() == 'Ok' and ok_parts(q)[1].variant == ok_parts(p)[1].variant]
            agree_nb = []
        else:
            agree_b = [(q, None) for q in paths2 if q.kind() == 'Err' and err_equal(p, q)]
            agree_nb = [(q, None) for q in paths2 if q.kind() == 'Err']
        no_b = z3.And([q.neg(extra=x) for q, x in agree_b]) if agree_b else z3.BoolVal(True)
        # window cut inside a character: "not an error in the other entry point" == some Ok / panicking path is taken
        nonerr = [q for q in paths2 if q.kind() != 'Err']
        no_nb = z3.Or([z3.And(q.pc) for q in nonerr]) if (nonerr and p.kind() == 'Err') else z3.BoolVal(p.kind() != 'Err')
        out += decide(ctx, list(ctx2.axioms) + p.pc + same_len, z3.If(bnd, no_b, no_nb), 'c16_entries_agree:str~%s:%s' % (other, p.label()),
                      lambda m, other=other, ctx2=ctx2: cex_pair(ctx, ctx2, 'str', other, m, 'outcomes_differ_c16', 'entry points disagree on the same text'),
                      realize=realizable(ctx, p), roles=roles_for(W, ctx, orc), oracle_defs=orc.defs)
    return out


# ------------------------------------------------------------------ C16 by decomposition (parse_header as an uninterpreted function)
def c16_modular(prog, lmax):
    """The four text entry points agree because they hand the *same slice* to the same function:
    parse_header (resp. try_from(&str)) is replaced by an uninterpreted function of its argument slice
    (sound: it is literally the same MIR body in both callers), and what remains - the duplicated window
    logic, from_utf8, map_err, `.addresses`, `.to_owned()` - is executed symbolically and compared.
    Returns (queries, results) where results are decide()-style records."""
    recs = []
    ctx = models.InputCtx(lmax)
    v1sum.prime(ctx)
    orc = Oracle(ctx)

    def stub_ph(ex, func, argv, frame):
        if func == 'v1::parse_header':
            s = argv[0]
            ex.calls.append(('parse_header', s))
            if ex.choose(2) == 0:
                return True, models.Ok(Opaque('PH_ok', slice=s))
            return True, models.Err(Opaque('PH_err', slice=s))
        return False, None

    def run_entry(kind, hooks):
        out = []
        ex = v1sum.new_exec(prog, [ctx], lmax)
        ex.suffix = ''
        ex.hooks = list(hooks) + list(ex.hooks)
        run0 = v1sum.runner(prog, kind, ctx)

        def run(e):
            e.calls = []
            r = run0(e)
            e.notes.append(('calls', list(e.calls)))
            return r
        res = explore(ex, run, base_axioms=ctx.axioms)
        return [v1sum.Path(sc, items, outc, notes, i) for i, (sc, items, outc, notes) in enumerate(res)]

    ps = run_entry('str', [stub_ph])
    pb = run_entry('bytes', [stub_ph])
    wend = z3.If(orc.hascr, z3.If(orc.c + 2 <= ctx.L, orc.c + 2, ctx.L), ctx.L)
    too_long = z3.And(z3.Not(orc.hascr), ctx.L >= 107)
    bnd = z3.Or(wend == ctx.L, z3.Not(z3.And(ctx.S(wend) >= 128, ctx.S(wend) < 192)))

    def shape(p):
        """('PH', variant, start, end) when the outcome is parse_header's result passed through, else ('own', label)"""
        if p.outcome[0] == 'panic':
            return ('panic', p.outcome[1])
        v = p.outcome[1]
        x = v.fields[0]
        if isinstance(x, Enum) and x.ty.endswith('BinaryParseError') and x.variant == 'Parse':
            x = x.fields[0]
        if isinstance(x, Opaque) and x.kind in ('PH_ok', 'PH_err'):
            if (v.variant == 'Ok') != (x.kind == 'PH_ok'):
                return ('own', 'variant flipped')
            return ('PH', x.kind, x.slice.start, x.slice.end)
        return ('own', render_err(v.fields[0]) if v.variant == 'Err' else 'Ok?')

    t0 = time.time()
    nq = 0
    for p in ps:
        for q in pb:
            s = new_solver(ctx, orc.defs)
            for c in p.pc + q.pc:
                s.add(c)
            a, b = shape(p), shape(q)
            if a[0] == 'PH' and b[0] == 'PH' and a[1] == b[1]:
                # same function, same variant choice: results are equal iff the argument slices are equal
                agree_b = z3.And(Z(a[2]) == Z(b[2]), Z(a[3]) == Z(b[3]))
                both_err = z3.BoolVal(a[1] == 'PH_err')
            elif a[0] == 'PH' and b[0] == 'PH':
                # different variant choices of the uninterpreted function on *equal* slices cannot co-occur
                s.add(z3.Not(z3.And(Z(a[2]) == Z(b[2]), Z(a[3]) == Z(b[3]))))
                agree_b = z3.BoolVal(False)
                both_err = z3.BoolVal(False)
            elif a[0] == 'own' and b[0] == 'own':
                agree_b = z3.BoolVal(a[1] == b[1])
                both_err = z3.BoolVal(a[1] != 'Ok?' and b[1] != 'Ok?')
            elif a[0] == 'panic' or b[0] == 'panic':
                agree_b = z3.BoolVal(False)
                both_err = z3.BoolVal(False)
            else:
                agree_b = z3.BoolVal(False)
                both_err = z3.BoolVal((a[0] == 'own' or a[1] == 'PH_err') and (b[0] == 'own' or b[1] == 'PH_err'))
            s.add(z3.Not(z3.If(bnd, agree_b, both_err)))
            nq += 1
            r = s.check()
            rec = {'label': 'c16_modular:str~bytes:path%d/%d' % (p.idx, q.idx), 'task': ['c16_modular', 'str', p.idx], 'solver_s': 0.0}
            if r == z3.unsat:
                rec['status'] = 'unsat'
            elif r == z3.sat:
                rec['status'] = 'sat'
                m = s.model()
                bts = v1sum.model_bytes(m, ctx)
                rec['cex'] = {'runs': [['v1_str', bts.hex()], ['v1_bytes', bts.hex()]], 'violated_if': 'outcomes_differ_c16',
                              'summary': 'text and byte entry points disagree on %r (str: %s, bytes: %s)' % (bts, a, b)}
            else:
                rec['status'] = 'unknown'
            recs.append(rec)
    # FromStr impls: try_from(&str) as an uninterpreted function
    def stub_tf(ex, func, argv, frame):
        if func.startswith("<v1::model::Header<'_> as std::convert::TryFrom<&str>>::try_from"):
            s = argv[0]
            if ex.choose(2) == 0:
                hdr = Struct('v1::model::Header', {0: Enum(models.COW, 'Borrowed', [Opaque('TF_hdr', slice=s)]), 'header': None, 1: Opaque('TF_addr', slice=s), 'addresses': None})
                hdr.fields = {0: Enum(models.COW, 'Borrowed', [Opaque('TF_hdr', slice=s)]), 1: Opaque('TF_addr', slice=s)}
                hdr.names = {'header': 0, 'addresses': 1}
                return True, models.Ok(hdr)
            return True, models.Err(Opaque('TF_err', slice=s))
        return False, None

    for kind in ('fromstr_addresses', 'fromstr_header'):
        for p in run_entry(kind, [stub_tf]):
            good = False
            if p.outcome[0] == 'ret':
                v = p.outcome[1]
                x = v.fields[0]
                if v.variant == 'Err':
                    good = isinstance(x, Opaque) and x.kind == 'TF_err' and x.slice.start == 0 and x.slice.end is ctx.L
                elif kind == 'fromstr_addresses':
                    good = isinstance(x, Opaque) and x.kind == 'TF_addr' and x.slice.end is ctx.L
                else:
                    h = x.get('header')
                    a = x.get('addresses')
                    hs = h.fields[0] if isinstance(h, Enum) else h
                    good = (isinstance(a, Opaque) and a.kind == 'TF_addr' and isinstance(h, Enum) and h.variant == 'Owned'
                            and isinstance(hs, Opaque) and hs.kind == 'String' and isinstance(hs.s, Opaque) and hs.s.kind == 'TF_hdr')
            nq += 1
            rec = {'label': 'c16_modular:%s:path%d' % (kind, p.idx), 'task': ['c16_modular', kind, p.idx], 'solver_s': 0.0}
            if good:
                rec['status'] = 'unsat'
            else:
                s = new_solver(ctx)
                for c in p.pc:
                    s.add(c)
                r = s.check()
                if r == z3.sat:
                    rec['status'] = 'sat'
                    bts = v1sum.model_bytes(s.model(), ctx)
                    rec['cex'] = {'runs': [['v1_str', bts.hex()], [ENTRY_OF[kind], bts.hex()]], 'violated_if': 'outcomes_differ_c16', 'corpus': 'c16',
                                  'summary': '%s does not pass the result of try_from(&str) through on %r' % (kind, bts)}
                else:
                    rec['status'] = 'unsat' if r == z3.unsat else 'unknown'
            recs.append(rec)
    for r in recs:
        r['solver_s'] = (time.time() - t0) / max(1, len(recs))
    return len(ps), len(pb), recs


# ------------------------------------------------------------------ C15 (views) and the views part of C03
SPECS['C15'] = {'kinds': ['str_views'], 'lmax': {'quick': 112, 'thorough': 128},
                'obligations': [('c15_views', ['str_views'])]}
# quick: text entry with all views + byte entry; thorough: + both FromStr impls (they only add `.addresses` / `.to_owned()`)
SPECS['C03']['kinds'] = ['str_views', 'bytes']
SPECS['C03']['obligations'] = [('c03_nopanic', ['str_views', 'bytes'])]
SPECS['C03']['thorough_extra'] = {'kinds': ['fromstr_addresses', 'fromstr_header'], 'lmax': 112,
                                  'obligations': [('c03_nopanic', ['fromstr_addresses', 'fromstr_header'])]}
SPECS['C03']['modular'] = 'c03_glue_nopanic'
ENTRY_OF['str_views'] = 'v1_views'
ENTRY_OF['str_long'] = 'v1_str'
ENTRY_OF['bytes_long'] = 'v1_bytes'


def ob_c15_views(W, kind, idx, params):
    """C15: for every accepted header, protocol() is the second field and matches the decoded kind,
    addresses_str() is what lies between the keyword and the CRLF minus one separating space, the parts
    re-assemble to the header text, and Display prints exactly the header text."""
    import wstate
    ctx, paths = wstate.w_summary(kind)
    p = paths[idx]
    if p.kind() != 'Ok':
        return []
    orc = Oracle(ctx)
    views = [n for n in p.notes if n[0] == 'views']
    if not views:
        raise Unsupported('views were not evaluated on an Ok path')
    _, proto, astr, pieces, dres = views[0]
    hdr, addrs = ok_parts(p)
    k = Z(hdr.end)
    want = {'Unknown': b'UNKNOWN', 'Tcp4': b'TCP4', 'Tcp6': b'TCP6'}[addrs.variant]
    good = []
    if not (isinstance(proto, Str) and proto.concrete() and proto.bytes() == want):
        good.append(z3.BoolVal(False))
    pl = len(want)
    # the keyword is the second field of the line
    good += [orc.lit(0, b'PROXY '), orc.lit(6, want), z3.Or(ctx.S(6 + pl) == SP, ctx.S(6 + pl) == CR)]
    sep = z3.And(ctx.S(6 + pl) == SP, 6 + pl < k - 2)
    a_want = z3.If(sep, 6 + pl + 1, 6 + pl)
    if astr.buf is not ctx.buf:
        good.append(z3.BoolVal(False))
    good += [Z(astr.start) == a_want, Z(astr.end) == k - 2, ctx.S(k - 2) == CR, ctx.S(k - 1) == LF]
    # Display prints exactly the header text
    disp_ok = (len(pieces) == 1 and isinstance(pieces[0], Str) and pieces[0].buf is ctx.buf and dres.variant == 'Ok')
    if disp_ok:
        good += [Z(pieces[0].start) == Z(hdr.start), Z(pieces[0].end) == Z(hdr.end)]
    else:
        good.append(z3.BoolVal(False))
    # only well-formed accepted lines are in scope (acceptance of anything else is C01's finding, not C15's)
    G = orc.wellformed()
    return decide(ctx, p.pc, z3.And(G, z3.Not(z3.And(good))), 'c15_views:%s' % p.label(),
                  lambda m: cex_single(ctx, 'str_views', m, 'views_wrong', 'header views do not reconstruct the header text'),
                  realize=realizable(ctx, p) + oracle_realizable(ctx, oracle_addr_fields(orc)), roles=roles_for(W, ctx, orc), oracle_defs=orc.defs)


# ------------------------------------------------------------------ C12 (v1 half)
SPECS['C12'] = {'kinds': ['str', 'bytes'], 'lmax': {'quick': 112, 'thorough': 128},
                'obligations': [('c12_blame', ['str', 'bytes'])]}


def c12_classes(orc, kind):
    """[(name, class formula over the input, expected error variants)] : a complete well-formed header with
    exactly one element replaced by something invalid for that element"""
    from oracles import OracleG
    g = orc
    c = g.ctx
    term = g.terminated()                      # CRLF-terminated, <= 107 bytes
    utf = c.valid_utf8_prefix(g.c + 2) if v1sum.base(kind) == 'bytes' else z3.BoolVal(True)
    out = []
    good_rest = []
    for fam, kw in ((4, b'TCP4'), (6, b'TCP6')):
        good_rest.append(z3.And(g.proto_is(kw), g.shape4(), g.addr_ok(fam, 0), g.addr_ok(fam, 1), g.port_good(2), g.port_good(3)))
    unknown_rest = z3.And(g.proto_is(b'UNKNOWN'))
    # keyword corrupted, everything else a well-formed line
    out.append(('keyword', z3.And(term, utf, z3.Not(g.kw_ok()), g.e0 < g.c, z3.Or(good_rest + [unknown_rest])), ['InvalidPrefix']))
    # protocol corrupted (any other SP/CR-free token): the rest of a well-formed UNKNOWN line is arbitrary
    out.append(('protocol', z3.And(term, utf, g.kw_ok(), g.e0 < g.c,
                                   z3.Not(z3.Or(g.tok_is(g.e0 + 1, g.pe, b'TCP4'), g.tok_is(g.e0 + 1, g.pe, b'TCP6'), g.tok_is(g.e0 + 1, g.pe, b'UNKNOWN')))),
                ['InvalidProtocol']))
    for fam, kw in ((4, b'TCP4'), (6, b'TCP6')):
        base = z3.And(term, utf, g.kw_ok(), g.proto_is(kw), g.shape4())
        out.append(('source address (TCP%d)' % fam, z3.And(base, g.addr_bad(fam, 0), g.addr_ok(fam, 1), g.port_good(2), g.port_good(3)), ['InvalidSourceAddress']))
        out.append(('destination address (TCP%d)' % fam, z3.And(base, g.addr_ok(fam, 0), g.addr_bad(fam, 1), g.port_good(2), g.port_good(3)), ['InvalidDestinationAddress']))
        out.append(('source port (TCP%d)' % fam, z3.And(base, g.addr_ok(fam, 0), g.addr_ok(fam, 1), z3.Not(g.port_good(2)), g.port_good(3)), ['InvalidSourcePort']))
        out.append(('destination port (TCP%d)' % fam, z3.And(base, g.addr_ok(fam, 0), g.addr_ok(fam, 1), g.port_good(2), z3.Not(g.port_good(3))), ['InvalidDestinationPort']))
    wf_body = z3.And(g.kw_ok(), z3.Or(good_rest + [unknown_rest]))
    # the byte that follows the CR is not LF
    out.append(('byte after CR', z3.And(g.hascr, g.c + 1 < c.L, c.S(g.c + 1) != LF, g.c + 2 <= 107, utf, wf_body), ['InvalidSuffix']))
    # the 107-byte limit
    out.append(('107-byte limit', z3.And(g.terminated_any_len(), g.c + 2 > 107, utf, wf_body), ['HeaderTooLong']))
    if v1sum.base(kind) == 'bytes':
        out.append(('invalid UTF-8', z3.And(term, z3.Not(c.valid_utf8_prefix(g.c + 2)), g.kw_ok(), unknown_rest), ['InvalidUtf8']))
        # the byte that follows the CR is not LF *and* starts a multi-byte character (the examined window then ends
        # inside that character): blamed on the suffix or on the encoding, terminally either way
        out.append(('byte after CR (UTF-8 lead byte)', z3.And(g.hascr, g.c + 1 < c.L, c.S(g.c + 1) >= 0xC2, c.S(g.c + 1) <= 0xF4, g.c + 2 <= 107,
                                                            c.valid_utf8_prefix(g.c + 1), wf_body), ['InvalidSuffix', 'InvalidUtf8']))
    return out


def ob_c12_blame(W, kind, idx, params):
    """C12 (v1): a complete well-formed header corrupted in exactly one element is rejected with a terminal
    error whose kind names that element."""
    import wstate
    from oracles import OracleG
    ctx, paths = wstate.w_summary(kind)
    p = paths[idx]
    orc = OracleG(ctx)
    out = []
    if p.kind() == 'Err':
        o, i = p.err_variant()
        got = i if i else o
        terminal = not p.inc
    else:
        got, terminal = p.kind(), False
    t = orc.gfields()
    fields = [(fam, a, b, z3.And(orc.kw_ok(), orc.proto_is(kw))) for fam, kw in ((4, b'TCP4'), (6, b'TCP6')) for (a, b) in t['f'][:2]]
    for name, cls, want in c12_classes(orc, kind):
        if got in want and terminal:
            # this path gives the required verdict: nothing to refute; it serves as reachability witness of the class
            out.append(witness(ctx, p.pc, cls, 'c12 class `%s` (%s entry) is inhabited and gets %s' % (name, kind, '/'.join(want)), oracle_defs=orc.defs))
            continue
        out += decide(ctx, p.pc, cls, 'c12_blame:%s:%s:%s' % (kind, name, p.label()),
                      lambda m, want=want, name=name: cex_single(ctx, kind, m, 'not_error', 'corrupted %s is not rejected with a terminal %s' % (name, '/'.join(want)), want_err=want),
                      realize=realizable(ctx, p) + oracle_realizable(ctx, fields), roles=roles_for(W, ctx, orc), oracle_defs=orc.defs)
    return out


# ------------------------------------------------------------------ validation tasks (3.4), run in the pool
def ob_val_witness(W, kind, idx, params):
    """a realisable witness input of path idx and the outcome the summary predicts for it"""
    import wstate
    ctx, paths = wstate.w_summary(kind)
    p = paths[idx]
    s = new_solver(ctx)
    for c in p.pc:
        s.add(c)
    s.push()
    for c in realizable(ctx, p):
        s.add(c)
    r = s.check()
    if r != z3.sat:
        s.pop()
        r2 = s.check()
        if r2 != z3.sat:
            return [{'label': 'val_witness', 'status': 'error', 'detail': 'path %d of %s is not satisfiable on replay (%s)' % (idx, kind, r2)}]
        return [{'label': 'val_witness', 'status': 'skip', 'detail': 'feasible only with address texts outside the dictionary'}]
    m = s.model()
    return [{'label': 'val_witness', 'status': 'ok', 'witness': v1sum.model_bytes(m, ctx).hex(), 'want': render(p, kind, m), 'outcome': p.label()}]


def ob_val_literal(W, kind, idx, params):
    """execute the MIR on a concrete literal (input fixed by axioms: exactly one feasible path) and render the outcome"""
    import wstate
    ctx, paths = wstate.w_summary(kind)
    prog = W['prog']
    lit = bytes.fromhex(params['lit'])
    fixed = list(ctx.axioms) + [ctx.L == len(lit)] + [ctx.S(i) == b for i, b in enumerate(lit)] + [dictionary_axioms(ctx, lit)]
    ex = v1sum.new_exec(prog, [ctx], ctx.lmax)
    ex.suffix = ctx.suffix
    got = explore(ex, v1sum.runner(prog, kind, ctx), base_axioms=fixed)
    if len(got) != 1:
        return [{'label': 'val_literal', 'status': 'error', 'detail': 'literal %r drives %d paths of entry %s (expected exactly 1)' % (lit, len(got), kind)}]
    sc, items_, outc, notes = got[0]
    cands = [v1sum.Path(sc, items_, outc, notes, 0)]
    annotate(prog, kind, cands, ctx)        # may split the path when the flags depend on an error payload
    for p1 in cands:
        s = z3.Solver()
        s.set('arith.solver', 2)
        for a_ in fixed:
            s.add(a_)
        for c in p1.pc:
            s.add(c)
        if s.check() == z3.sat:
            return [{'label': 'val_literal', 'status': 'ok', 'witness': lit.hex(), 'want': render(p1, kind, s.model())}]
    return [{'label': 'val_literal', 'status': 'error', 'detail': 'literal %r: path condition not satisfiable' % (lit,)}]


# ------------------------------------------------------------------ C06: auto-detection glue
SPECS['C06'] = {'kinds': ['bytes'], 'lmax': {'quick': 112, 'thorough': 128}, 'modular': 'c06_glue',
                'obligations': [('c06_v1_ok_starts_with_P', ['bytes'])]}

V2_INC = {'Incomplete', 'Partial'}
V1_INC = {'Partial', 'MissingPrefix', 'MissingProtocol', 'MissingSourceAddress', 'MissingDestinationAddress',
          'MissingSourcePort', 'MissingDestinationPort', 'MissingNewLine'}


def c06_glue(prog, lmax):
    """HeaderResult::parse with the two dedicated parsers replaced by *arbitrary* results of their types
    (every variant, opaque payloads): the decision table of C06 must hold for every pair (r2, r1)."""
    recs = []
    parse = [n for (tr, ty, m, n) in prog.impl_index if tr is None and m == 'parse' and ty.startswith('HeaderResult')]
    if len(parse) != 1:
        raise Unsupported('HeaderResult::parse not found')
    v2_variants = sorted(prog.enums['v2::error::ParseError'].items(), key=lambda kv: kv[1])
    v1_variants = sorted(prog.enums['v1::error::ParseError'].items(), key=lambda kv: kv[1])
    ctx = models.InputCtx(8)
    inp = ctx.input_str(False)

    def stub(ex, func, argv, frame):
        if re.match(r"^<v2::model::Header<'_> as std::convert::TryFrom<&\[u8\]>>::try_from", func):
            ex.calls.append(('v2', argv[0]))
            k = ex.choose(1 + len(v2_variants))
            if k == 0:
                r = models.Ok(Opaque('H2'))
            else:
                name = v2_variants[k - 1][0]
                # payloads are symbolic integers constrained to what the v2 parser can report (facts decided by C02 /
                # C12 / C17): glue code that *computes* with a payload (e.g. a missing-bytes count) is then executable
                pa, pb = z3.Int('v2pay_a'), z3.Int('v2pay_b')
                facts = {'Incomplete': (1, z3.And(pa >= 0, pa < 16)), 'Prefix': (0, True), 'Version': (1, z3.And(pa >= 0, pa <= 240, pa % 16 == 0, pa != 32)),
                         'Command': (1, z3.And(pa >= 2, pa <= 15)), 'AddressFamily': (1, z3.And(pa >= 64, pa <= 240, pa % 16 == 0)), 'Protocol': (1, z3.And(pa >= 3, pa <= 15)),
                         'Partial': (2, z3.And(pa >= 0, pa < pb, pb <= 65535)), 'InvalidAddresses': (2, z3.And(pa >= 0, pa < pb, z3.Or(pb == 12, pb == 36, pb == 216)))}
                if name in facts:
                    n_, fact = facts[name]
                    if fact is not True:
                        ex.assume(fact, 'd')
                    r = models.Err(Enum('v2::error::ParseError', name, [pa, pb][:n_]))
                else:
                    r = models.Err(Enum('v2::error::ParseError', name, [Opaque('payload'), Opaque('payload')]))
            ex.r2 = r
            return True, r
        if re.match(r"^<v1::model::Header<'_> as std::convert::TryFrom<&\[u8\]>>::try_from", func):
            ex.calls.append(('v1', argv[0]))
            k = ex.choose(2 + len(v1_variants))
            if k == 0:
                r = models.Ok(Opaque('H1'))
            elif k == 1:
                r = models.Err(Enum('v1::error::BinaryParseError', 'InvalidUtf8', [Opaque('payload')]))
            else:
                name = v1_variants[k - 2][0]
                r = models.Err(Enum('v1::error::BinaryParseError', 'Parse', [Enum('v1::error::ParseError', name, [Opaque('payload')])]))
            ex.r1 = r
            return True, r
        return False, None

    ex = v1sum.new_exec(prog, [ctx], 8)
    ex.suffix = ''
    ex.hooks = [stub] + list(ex.hooks)

    def run(e):
        e.calls = []
        e.r1 = None
        e.r2 = None
        r = e.call_fn(parse[0], [inp], {})
        inc = models.dispatch(e, '<HeaderResult<\'_> as PartialResult>::is_incomplete', [Ref(Cell(r))], {'generics': {}})
        comp = models.dispatch(e, '<HeaderResult<\'_> as PartialResult>::is_complete', [Ref(Cell(r))], {'generics': {}})
        e.notes.append(('glue', r, inc, comp, e.r2, e.r1, list(e.calls)))
        return r
    res = explore(ex, run, base_axioms=ctx.axioms)
    t0 = time.time()
    n = 0
    for sc, items, outc, notes in res:
        n += 1
        rec = {'label': 'c06_glue:path%d' % n, 'task': ['c06_glue', 'auto', n], 'solver_s': 0.0, 'status': 'unsat'}
        why = None
        if outc[0] != 'ret':
            why = 'panic: %s' % outc[1]
        else:
            _, r, inc, comp, r2, r1, calls = [x for x in notes if x[0] == 'glue'][0]
            # every dedicated parser is handed the whole, unchanged input
            if any(not (c[1] is inp or (isinstance(c[1], Str) and c[1].buf is inp.buf and c[1].start is inp.start and c[1].end is inp.end)) for c in calls):
                why = 'a dedicated parser is called on something other than the input'
            if r2 is None:
                # the v2 parser was not consulted on this path: the decision table cannot be evaluated on abstract
                # results. Candidate violation (a possible v2 header handed to the text parser's verdict), confirmed or
                # refuted natively on the glue corpus; if it does not reproduce the path is reported inconclusive.
                rec['status'] = 'sat'
                rec['cex'] = {'runs': [], 'violated_if': 'glue_table', 'glue': True, 'unconfirmed_is_inconclusive': True,
                              'summary': 'HeaderResult::parse decides without consulting the v2 parser (v1 result %r)' % (r1,)}
                recs.append(rec)
                continue
            v2ok = r2.variant == 'Ok'
            v2inc = (not v2ok) and r2.fields[0].variant in V2_INC
            if v2ok or v2inc:
                want_tag, want_val = 'V2', r2
                want_inc = v2inc
                if r1 is not None and False:
                    pass
            else:
                if r1 is None:
                    why = why or 'the text parser was not consulted although the v2 error is terminal'
                want_tag, want_val = 'V1', r1
                e1 = r1.fields[0] if r1 is not None and r1.variant == 'Err' else None
                want_inc = bool(e1 is not None and e1.variant == 'Parse' and e1.fields[0].variant in V1_INC)
            if why is None:
                if not (isinstance(r, Enum) and r.variant == want_tag and r.fields[0] is want_val):
                    why = 'result is not %s(<that parser\'s result, unchanged>)' % want_tag
                elif isinstance(inc, bool) and isinstance(comp, bool):
                    if inc is not want_inc or comp is not (not want_inc):
                        why = 'is_incomplete=%s is_complete=%s, expected incomplete=%s' % (inc, comp, want_inc)
                else:
                    # the flags depend on an error payload: decided by the solver over the payload values the parser can report
                    sv = z3.Solver()
                    for _, c_ in items:
                        sv.add(c_)
                    sv.add(z3.Or(Z(inc) != z3.BoolVal(want_inc), Z(comp) != z3.BoolVal(not want_inc)))
                    if sv.check() != z3.unsat:
                        why = 'is_incomplete / is_complete depend on the error payload and are wrong for e.g. %s (expected incomplete=%s)' % (sv.model() if sv.check() == z3.sat else '?', want_inc)
        if why:
            rec['status'] = 'sat'
            desc = 'v2 result %r, v1 result %r: %s' % (r2 if outc[0] == 'ret' else None, r1 if outc[0] == 'ret' else None, why)
            rec['cex'] = {'runs': [], 'violated_if': 'glue_table', 'summary': desc, 'glue': True}
        recs.append(rec)
    return len(res), 0, recs


def c03_glue_nopanic(prog, lmax):
    """C03 for the auto-detecting entry point and the PartialResult impls: HeaderResult::parse, is_incomplete
    and is_complete executed on every pair of dedicated-parser results (the parsers themselves are covered by
    their own obligations): no path panics."""
    n, _, recs = c06_glue(prog, lmax)
    out = []
    for r in recs:
        bad = r['status'] != 'unsat' and 'panic' in (r.get('cex') or {}).get('summary', '')
        out.append({'label': r['label'].replace('c06_glue', 'c03_glue_nopanic'), 'task': ['c03_glue_nopanic', 'auto', r['task'][2]], 'solver_s': 0.0,
                    'status': 'sat' if bad else 'unsat', 'cex': r.get('cex') if bad else None})
    return n, 0, out


def ob_c06_v1_ok_starts_with_P(W, kind, idx, params):
    """C06 "never both": whatever the v1 parser accepts starts with 'P' (and whatever the v2 parser accepts
    starts with 0x0D - Engine K), so no input is accepted by both."""
    import wstate
    ctx, paths = wstate.w_summary(kind)
    p = paths[idx]
    if p.kind() != 'Ok':
        return []
    return decide(ctx, p.pc, z3.Or(ctx.L < 1, ctx.S(0) != 80), 'c06_v1_ok_starts_with_P:%s' % p.label(),
                  lambda m: cex_single(ctx, kind, m, 'accepted', 'v1 accepts an input that does not start with P'), realize=realizable(ctx, p))


# ------------------------------------------------------------------ C08: formatting produces canonical lines that parse back
# quick: text and byte entry points (the FromStr impls are try_from(&str) + glue, see C16); thorough: all four
SPECS['C08'] = {'kinds': ['str', 'bytes'], 'lmax': {'quick': 112, 'thorough': 128}, 'modular': 'c08_prepare',
                'obligations': [('c08_roundtrip', ['str', 'bytes'])],
                'thorough_extra': {'kinds': ['fromstr_addresses', 'fromstr_header'], 'lmax': 112,
                                   'obligations': [('c08_roundtrip', ['fromstr_addresses', 'fromstr_header'])]}}
_C08 = {}


def c08_pieces(prog):
    """execute <v1::Addresses as Display>::fmt on a symbolic value of each variant -> formatter pieces"""
    key = id(prog)
    if key in _C08:
        return _C08[key]
    disp = [n for (tr, ty, m, n) in prog.impl_index if tr and tr.endswith('Display') and m == 'fmt' and ty == 'Addresses' and 'src/v1/' in n]
    if len(disp) != 1:
        raise Unsupported('Display for v1::Addresses not found')
    out = {}
    for variant in ('Unknown', 'Tcp4', 'Tcp6'):
        ex = v1sum.new_exec(prog, [], 0)
        ex.suffix = ''
        if variant == 'Unknown':
            val = Enum('v1::model::Addresses', 'Unknown', [])
            sym = {}
        else:
            fam = 4 if variant == 'Tcp4' else 6
            sym = {'fam': fam, 'sa': z3.Int('c08_sa%d' % fam), 'da': z3.Int('c08_da%d' % fam), 'sp': z3.Int('c08_sp%d' % fam), 'dp': z3.Int('c08_dp%d' % fam)}
            ip = Struct('ip::IPv%d' % fam, {0: Opaque('ip', fam=fam, val=sym['sa'], role='source_address'), 'source_address': None,
                                             1: sym['sp'], 'source_port': None,
                                             2: Opaque('ip', fam=fam, val=sym['da'], role='destination_address'), 'destination_address': None,
                                             3: sym['dp'], 'destination_port': None})
            # field order of the struct as declared in src/ip.rs (read from the source, so that a reordering is followed)
            src = prog.src('src/ip.rs')
            mm = re.search(r'pub struct IPv%d \{(.*?)\}' % fam, src, re.S)
            order = re.findall(r'pub (\w+):', mm.group(1))
            vals = {'source_address': ip.fields[0], 'source_port': sym['sp'], 'destination_address': ip.fields[2], 'destination_port': sym['dp']}
            ip.fields = {i: vals[n] for i, n in enumerate(order)}
            ip.names = {n: i for i, n in enumerate(order)}
            val = Enum('v1::model::Addresses', variant, [ip])
        def run(e, val=val):
            f = Opaque('Formatter', pieces=[])
            r = e.call_fn(disp[0], [Ref(Cell(val)), Ref(Cell(f))], {})
            e.notes.append(('fmt', list(f.pieces), r))
            return r
        bounds = []
        if sym:
            bounds = [z3.And(sym['sa'] >= 0, sym['sa'] < 2 ** (32 if sym['fam'] == 4 else 128), sym['da'] >= 0, sym['da'] < 2 ** (32 if sym['fam'] == 4 else 128))]
        alts = []
        for sc, items, outc, notes in explore(ex, run, base_axioms=bounds):
            if outc[0] != 'ret':
                raise Unsupported('Display::fmt panics: %s' % (outc[1],))
            _, pieces, r = [n for n in notes if n[0] == 'fmt'][0]
            alts.append(([c_ for _, c_ in items], pieces, r))
        out[variant] = (sym, alts)
    _C08[key] = out
    return out


def c08_prepare(prog, lmax):
    """modular part of C08: the template of Display for Addresses is decoded from the MIR (one run per variant)"""
    pcs = c08_pieces(prog)
    recs = []
    for variant, (sym, alts) in pcs.items():
        for k, (cond, pieces, r) in enumerate(alts):
            ok = isinstance(r, Enum) and r.variant == 'Ok' and len(pieces) >= 1
            recs.append({'label': 'c08_template:%s:%d' % (variant, k), 'task': ['c08_template', 'display', variant], 'solver_s': 0.0,
                         'status': 'unsat' if ok else 'unknown', 'detail': 'pieces: %r' % (pieces,)})
    return len(pcs), 0, recs


def c08_formatted(ctx, orc, variant, sym, pieces):
    """formula: the input (S, L) is the text that the decoded template produces for the symbolic value"""
    cs = []
    off = 0
    k = 0
    fields = []
    for pc_ in pieces:
        if isinstance(pc_, Str):
            data = pc_.bytes()
            cs += [ctx.S(Z(off) + i) == b for i, b in enumerate(data)]
            off = add(off, len(data))
        elif isinstance(pc_, Opaque) and pc_.kind == 'fmtarg':
            k += 1
            e = z3.Int('c08_e%d_%s%s' % (k, variant, ctx.suffix))
            a = Z(off)
            v = pc_.v
            if pc_.ty == 'u16':
                # std contract: Display for u16 is the canonical decimal (no sign, no leading zero)
                cs += [e - a >= 1, e - a <= 5, ctx.forall_range(a, e, 'o_digit', lambda x: z3.And(x >= 48, x <= 57)),
                       z3.Or(e - a == 1, ctx.S(a) != 48), orc.port_val(a, e) == Z(v), Z(v) >= 0, Z(v) <= 65535]
            elif pc_.ty in ('std::net::Ipv4Addr', 'std::net::Ipv6Addr'):
                fam = 4 if pc_.ty.endswith('Ipv4Addr') else 6
                okf, valf = (ctx.ok4, ctx.val4) if fam == 4 else (ctx.ok6, ctx.val6)
                # std contract: Display output is ASCII over the address alphabet, 7..15 / 2..39 bytes, and from_str(display(a)) == Ok(a)
                lo, hi = (7, 15) if fam == 4 else (2, 39)
                other = ctx.ok6 if fam == 4 else ctx.ok4
                cs += [e - a >= lo, e - a <= hi, okf(a, e), valf(a, e) == v.val, models.addr_contract(ctx, fam, a, e),
                       z3.Not(other(a, e)),      # std fact: no text is both a valid IPv4 and a valid IPv6 address (':' vs '.'-only)
                       v.val >= 0, v.val < 2 ** (32 if fam == 4 else 128)]
                fields.append((fam, a, e))
            else:
                raise Unsupported('Display argument of type ' + pc_.ty)
            off = e
        else:
            raise Unsupported('formatter piece %r' % (pc_,))
    cs.append(ctx.L == Z(off))
    return z3.And(cs), fields


def ob_c08_roundtrip(W, kind, idx, params):
    """C08: for every address value V, the text T that Display produces (template decoded from the MIR, std's
    Display of u16 / IpAddr as contract axioms) is at most 107 bytes and this entry point parses T back to V
    with header text T."""
    import wstate
    ctx, paths = wstate.w_summary(kind)
    p = paths[idx]
    orc = Oracle(ctx)
    out = []
    for variant, sym, cond, pieces in [(v_, s_, c_, p_) for v_, (s_, alts_) in c08_pieces(W['prog']).items() for (c_, p_, r_) in alts_]:
        F, fields = c08_formatted(ctx, orc, variant, sym, pieces)
        if cond:
            F = z3.And([F] + list(cond))
        good = z3.BoolVal(False)
        if p.kind() == 'Ok':
            hdr, addrs = ok_parts(p)
            g = []
            if hdr is not None:
                if hdr.buf is ctx.buf:
                    g += [Z(hdr.start) == 0, Z(hdr.end) == ctx.L]
                elif not (isinstance(hdr, Opaque)):
                    g.append(z3.BoolVal(False))
            if addrs.variant != variant:
                g.append(z3.BoolVal(False))
            elif variant != 'Unknown':
                ip = addrs.fields[0]
                g += [ip.get('source_address').val == sym['sa'], ip.get('destination_address').val == sym['da'],
                      Z(ip.get('source_port')) == sym['sp'], Z(ip.get('destination_port')) == sym['dp']]
            good = z3.And(g) if g else z3.BoolVal(True)

        def mk(m, variant=variant, sym=sym):
            if variant == 'Unknown':
                spec = '0'
            else:
                spec = '%d %d %d %d %d' % (sym['fam'], ev(m, sym['sa']), ev(m, sym['da']), ev(m, sym['sp']), ev(m, sym['dp']))
            return {'runs': [['v1_fmt', spec.encode().hex()]], 'violated_if': 'fmt_roundtrip',
                    'summary': 'formatted %s value (%s) does not parse back through %s as the same value / canonical line' % (variant, spec, kind)}
        neg = z3.And(F, z3.Or(z3.Not(good), ctx.L > 107))
        out += decide(ctx, p.pc, neg, 'c08_roundtrip:%s:%s:%s' % (kind, variant, p.label()), mk,
                      realize=[], roles=roles_for(W, ctx, orc), oracle_defs=orc.defs)
    return out


# ------------------------------------------------------------------ builder properties (Engine M half): see props_b.py
def _builder(prog, props, label, kmax):
    import props_b
    return props_b.builder_modular(prog, props, kmax, label)


def c09_builder_q(prog, lmax):
    return _builder(prog, {'C09'}, 'c09_histories', 2)


def c09_builder_t(prog, lmax):
    return _builder(prog, {'C09'}, 'c09_histories', 3)


def c10_builder_q(prog, lmax):
    return _builder(prog, {'C10'}, 'c10_histories', 2)


def c10_builder_t(prog, lmax):
    return _builder(prog, {'C10'}, 'c10_histories', 3)


def c20_builder_q(prog, lmax):
    return _builder(prog, {'C20', 'C10'}, 'c20_histories', 2)


def c20_builder_t(prog, lmax):
    return _builder(prog, {'C20', 'C10'}, 'c20_histories', 3)


def c07_builder_q(prog, lmax):
    # wire format of the constructors (unspecified via new, IPv4, Unix with sparse symbolic content) + one write,
    # with TLV value lengths as unbounded integers (complements the Kani harnesses' literal lengths)
    # C10 badness = wrong bytes; C09 badness = a build that fails although the encoding fits in 65535 bytes (also a C07 violation)
    return _builder(prog, {'C10', 'C09'}, 'c07_wire_format', 1)


def c07_builder_t(prog, lmax):
    return _builder(prog, {'C10', 'C09'}, 'c07_wire_format', 2)


SPECS['C07'] = {'kinds': [], 'lmax': {'quick': 0, 'thorough': 0}, 'modular': 'c07_builder_q', 'modular_thorough': 'c07_builder_t', 'obligations': [], 'no_v1': True}
for _pid, _q, _t in (('C09', 'c09_builder_q', 'c09_builder_t'), ('C10', 'c10_builder_q', 'c10_builder_t'), ('C20', 'c20_builder_q', 'c20_builder_t')):
    SPECS[_pid] = {'kinds': [], 'lmax': {'quick': 0, 'thorough': 0}, 'modular': _q, 'modular_thorough': _t, 'obligations': [], 'no_v1': True}


# ------------------------------------------------------------------ what each modular obligation states as its bound (goes into the evidence file)
MODULAR_META = {
    'c16_modular': {'bounds': ['c16_modular: window logic, from_utf8, str::get, map_err, FromStr glue executed with parse_header / try_from(&str) as an uninterpreted function of its argument slice; every valid-UTF-8 text of at most LMAX={LMAX} bytes']},
    'c06_glue': {'bounds': ['c06_glue: HeaderResult::parse, From impls, is_incomplete, is_complete executed on every pair of dedicated-parser results (every variant, opaque payloads): exhaustive over the finite variant space, no size bound']},
    'c03_glue_nopanic': {'bounds': ['c03_glue_nopanic: the auto-detecting entry point and the PartialResult impls on every pair of dedicated-parser results']},
    'c08_prepare': {'bounds': ['c08: Display for v1::Addresses decoded from its MIR template constant; every address value (std Display/FromStr of the address types as contract axioms)']},
}
_BUILDER_BOUND = 'builder histories: every sequence of at most %d calls from {set_length(Some), set_length(None), reserve_capacity, write_payload(u8|u16|&[u8]|Type|hand-built TypeLengthValue), write_tlv, write_payloads} after new / with_addresses(IPv4) (Unix for <= 1 call), ended by build; all values symbolic, payload sizes unbounded integers (Vec as segment list)'
for _n, _k in (('c09_builder_q', 2), ('c09_builder_t', 3), ('c10_builder_q', 2), ('c10_builder_t', 3), ('c20_builder_q', 2), ('c20_builder_t', 3), ('c07_builder_q', 1), ('c07_builder_t', 2)):
    MODULAR_META[_n] = {'bounds': [_BUILDER_BOUND % _k],
                        'functions': ['v2::Builder::{new, with_addresses, set_length, reserve_capacity, write_payload, write_payloads, write_tlv, write_internal, write_header, build}', 'v2::Writer::{from, finish, write}', 'WriteToHeader impls (u8, u16, [u8], TypeLengthValue, (T, &[u8]), Type, Addresses, &T)'],
                        'models': ['builder models (/verif/mirsym/models_b.py): Vec<u8> as segment list (with_capacity/reserve/push/extend_from_slice/len/index ranges/copy_from_slice), io::Write::write_all as std\'s loop around the crate\'s own Writer::write MIR, u16::try_from(usize), to_be_bytes, Ipv4Addr/Ipv6Addr::octets, array iteration']}


# ------------------------------------------------------------------ v2 half (unbounded input length): see props_v2.py
def _v2(clauses, label, **kw):
    def fn(prog, lmax):
        import props_v2
        n, nval, recs = props_v2.run_v2(prog, set(clauses), label, **kw)
        meta = {'bounds': [props_v2.BOUND + '; clauses: ' + ', '.join(sorted(clauses))], 'functions': props_v2.FUNCTIONS + (props_v2.FUNCTIONS_REBUILD if 'rebuild' in clauses else []),
                'models': [props_v2.MODELS], 'validated': nval}
        return n, 0, recs, meta
    return fn


V2_CLAUSES = {
    'C02': ['accept'], 'C12': ['blame', 'flags'], 'C17': ['counts', 'completion', 'flags'], 'C14': ['views'], 'C04': ['trailer'], 'C05': ['prefix', 'flags'],
    'C11': ['tlv_step', 'views'], 'C13': ['rebuild'], 'C03': ['views', 'tlv_step'], 'C16': ['views', 'tlv_step'],
}
def c20_write_to(prog, lmax):
    import props_b
    n, _, recs = props_b.c20_write_to(prog)
    meta = {'bounds': ['c20_write_to: every WriteToHeader impl (12 integer types, Type, Addresses x 4 families, TypeLengthValue, (u8, &[u8]), (Type, &[u8]), TypeLengthValues, [u8], &[u8]) called directly on a writer holding an arbitrary prefix of 0..65551 bytes; value / slice / section lengths are unbounded integers; returned count, appended bytes, to_bytes and refusal checked'],
            'functions': ['WriteToHeader::{write_to (every impl), to_bytes}', 'impl Write for v2::Writer', 'Writer::{default, finish}']}
    return n, 0, recs, meta


for _t in ('modular', 'modular_thorough'):
    _o = SPECS['C20'][_t]
    SPECS['C20'][_t] = ([_o] if isinstance(_o, str) else list(_o)) + ['c20_write_to']

for _pid, _cl in V2_CLAUSES.items():
    _name = 'v2_' + _pid.lower()
    globals()[_name] = _v2(_cl, _name)
    if _pid == 'C13':
        globals()[_name + '_t'] = _v2(_cl, _name, max_items=3)
    if _pid in SPECS:
        _old = SPECS[_pid].get('modular')
        SPECS[_pid]['modular'] = ([_old] if isinstance(_old, str) else list(_old or [])) + [_name]
        if SPECS[_pid].get('modular_thorough'):
            _o2 = SPECS[_pid]['modular_thorough']
            SPECS[_pid]['modular_thorough'] = ([_o2] if isinstance(_o2, str) else list(_o2)) + [_name]
    else:
        SPECS[_pid] = {'kinds': [], 'lmax': {'quick': 0, 'thorough': 0}, 'modular': [_name], 'obligations': [], 'no_v1': True}
        if _pid == 'C13':
            SPECS[_pid]['modular_thorough'] = [_name + '_t']
