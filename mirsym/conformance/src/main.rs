use mirsym_conformance::*;
use std::io::BufRead;
fn hexd(s: &str) -> Vec<u8> { (0..s.len() / 2).map(|i| u8::from_str_radix(&s[2 * i..2 * i + 2], 16).unwrap()).collect() }
fn off(base: &[u8], s: &[u8]) -> String { format!("{}:{}", s.as_ptr() as isize - base.as_ptr() as isize, s.len()) }
trait R { fn r(&self, base: &[u8]) -> String; }
impl R for usize { fn r(&self, _: &[u8]) -> String { format!("{}", self) } }
impl R for u8 { fn r(&self, _: &[u8]) -> String { format!("{}", self) } }
impl R for u16 { fn r(&self, _: &[u8]) -> String { format!("{}", self) } }
impl R for u32 { fn r(&self, _: &[u8]) -> String { format!("{}", self) } }
impl R for char { fn r(&self, _: &[u8]) -> String { format!("{}", *self as u32) } }
impl R for bool { fn r(&self, _: &[u8]) -> String { format!("{}", self) } }
impl R for &str { fn r(&self, b: &[u8]) -> String { if self.is_empty() { "0".into() } else { off(b, self.as_bytes()) } } }
impl<T: R> R for Option<T> { fn r(&self, b: &[u8]) -> String { match self { Some(x) => format!("Some({})", x.r(b)), None => "None".into() } } }
impl<A: R, B: R> R for (A, B) { fn r(&self, b: &[u8]) -> String { format!("({},{})", self.0.r(b), self.1.r(b)) } }
macro_rules! table { ($name:expr, $bytes:expr, $( $s:ident ),* ; $( $b:ident ),* ) => {{
    let bytes: &[u8] = $bytes;
    match $name {
        $( stringify!($s) => match std::str::from_utf8(bytes) { Ok(t) => $s(t).r(bytes), Err(_) => "NotUtf8".to_string() }, )*
        $( stringify!($b) => $b(bytes).r(bytes), )*
        _ => "UnknownFn".to_string(),
    }
}} }
fn main() {
    std::panic::set_hook(Box::new(|_| {}));
    for line in std::io::stdin().lock().lines() {
        let line = line.unwrap();
        let mut it = line.split_whitespace();
        let name = it.next().unwrap_or("").to_string();
        let bytes = hexd(it.next().unwrap_or(""));
        let r = std::panic::catch_unwind(|| table!(name.as_str(), &bytes,
            s_lines_first, s_lines_second, s_splitn_nth2, s_split_count, s_split_last, s_collect_shape, s_collect_match, s_slice_pat, s_slice_pat_end, s_split_str_nth, s_split_str_count, s_chars_pos, s_chars_count, s_chars_all_digit,
            s_chars_any_upper, s_chars_next, s_bytes_all_digit, s_bytes_pos, s_split_once, s_rsplit_once, s_split_once_str, s_strip_suffix, s_strip_prefix_char, s_trim_end_crlf,
            s_trim_start_sp, s_trim_end_sp, s_trim_start_zero_str, s_trim_end_set, s_trim_start_set, s_find_set, s_eq_ic, s_is_ascii, s_parse_u8, s_parse_u32, s_parse_u16_kind, s_radix, s_fromstr, s_starts_digit, s_ends_with_char, s_contains_char,
            s_contains_str, s_rfind, s_find_str, s_split_at, s_get ;
            b_take_pos, b_skip_pos, b_map_pos, b_copied_any, b_find, b_windows, b_nth, b_first_last, b_get, b_split_at, b_be16, b_le16, b_starts, b_contains, b_eq, b_chunks, b_constgen, b_slice_pat, b_utf8_upto, u_bits, u_sat));
        println!("{}", r.unwrap_or_else(|_| "Panic".to_string()));
    }
}
