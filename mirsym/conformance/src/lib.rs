//! Small functions over the std APIs that Engine M models (iterators, char classes, splitting, integer parsing).
//! `run_conformance.py` executes their MIR symbolically, takes one witness input per feasible path and compares the
//! outcome the models predict with what the natively compiled function returns.
#![allow(clippy::all)]

pub fn s_lines_first(s: &str) -> Option<&str> { s.lines().next() }
pub fn s_lines_second(s: &str) -> Option<&str> { s.lines().nth(1) }
pub fn s_splitn_nth2(s: &str) -> &str { s.splitn(3, ' ').nth(2).unwrap_or_default() }
pub fn s_split_count(s: &str) -> usize { s.split(' ').count() }
pub fn s_split_last(s: &str) -> Option<&str> { s.split(' ').last() }
pub fn s_collect_shape(s: &str) -> usize { let v: Vec<&str> = s.split(' ').collect(); v.len() * 100 + v[0].len() * 10 + v.last().map(|x| x.len()).unwrap_or(0) }
pub fn s_collect_match(s: &str) -> usize { let v: Vec<&str> = s.splitn(3, ' ').collect(); match v.as_slice() { [a] => a.len(), [a, b] => 10 + a.len() + b.len(), [_, _, c] => 100 + c.len(), _ => 999 } }
pub fn s_slice_pat(s: &str) -> usize { let v: Vec<&str> = s.split(' ').collect(); match v.as_slice() { [] => 0, [a] => a.len(), [a, rest @ ..] => 100 + a.len() * 10 + rest.len() } }
pub fn s_slice_pat_end(s: &str) -> usize { let v: Vec<&str> = s.split(' ').collect(); match v.as_slice() { [first, .., last] => 100 + first.len() * 10 + last.len(), [only] => only.len(), [] => 999 } }
pub fn b_slice_pat(b: &[u8]) -> usize { match b { [b'P', rest @ ..] => 1000 + rest.len(), [x, .., y] => *x as usize + *y as usize, _ => 7 } }
pub fn s_split_str_nth(s: &str) -> Option<&str> { s.split("ab").nth(1) }
pub fn s_split_str_count(s: &str) -> usize { s.split("\r\n").count() }
pub fn s_chars_pos(s: &str) -> Option<usize> { s.chars().position(|c| c == '\r') }
pub fn s_chars_count(s: &str) -> usize { s.chars().count() }
pub fn s_chars_all_digit(s: &str) -> bool { s.chars().all(|c| c.is_ascii_digit()) }
pub fn s_chars_any_upper(s: &str) -> bool { s.chars().any(|c| c.is_ascii_uppercase()) }
pub fn s_chars_next(s: &str) -> Option<char> { s.chars().next() }
pub fn s_bytes_all_digit(s: &str) -> bool { s.bytes().all(|b| b.is_ascii_digit()) }
pub fn s_bytes_pos(s: &str) -> Option<usize> { s.bytes().position(|b| b == b' ') }
pub fn b_take_pos(b: &[u8]) -> Option<usize> { b.iter().take(3).position(|&c| c == b'\r') }
pub fn b_skip_pos(b: &[u8]) -> Option<usize> { b.iter().skip(2).position(|&c| c == b'\r') }
pub fn b_map_pos(b: &[u8]) -> Option<usize> { b.iter().map(|&c| c as char).position(|c| c == '\r') }
pub fn b_copied_any(b: &[u8]) -> bool { b.iter().copied().any(|c| c == 0) }
pub fn b_find(b: &[u8]) -> Option<u8> { b.iter().find(|&&c| c > 127).copied() }
pub fn b_windows(b: &[u8]) -> Option<usize> { b.windows(2).position(|w| w == b"\r\n") }
pub fn b_nth(b: &[u8]) -> Option<u8> { b.iter().nth(2).copied() }
pub fn s_split_once(s: &str) -> Option<(&str, &str)> { s.split_once(' ') }
pub fn s_rsplit_once(s: &str) -> Option<(&str, &str)> { s.rsplit_once(' ') }
pub fn s_split_once_str(s: &str) -> Option<(&str, &str)> { s.split_once("\r\n") }
pub fn s_strip_suffix(s: &str) -> Option<&str> { s.strip_suffix("\r\n") }
pub fn s_strip_prefix_char(s: &str) -> Option<&str> { s.strip_prefix(' ') }
pub fn s_trim_end_crlf(s: &str) -> &str { s.trim_end_matches("\r\n") }
pub fn s_trim_start_sp(s: &str) -> &str { s.trim_start_matches(' ') }
pub fn s_trim_end_sp(s: &str) -> &str { s.trim_end_matches(' ') }
pub fn s_trim_start_zero_str(s: &str) -> &str { s.trim_start_matches("0") }
pub fn s_trim_end_set(s: &str) -> &str { s.trim_end_matches(&['\r', '\n']) }
pub fn s_trim_start_set(s: &str) -> &str { s.trim_start_matches(['a', ' ']) }
pub fn s_find_set(s: &str) -> Option<usize> { s.find(&[' ', '\r'][..]) }
pub fn b_utf8_upto(b: &[u8]) -> usize { match std::str::from_utf8(b) { Ok(s) => 1000 + s.len(), Err(e) => e.valid_up_to() * 10 + if e.error_len().is_none() { 1 } else { 2 } } }
pub fn s_eq_ic(s: &str) -> bool { s.eq_ignore_ascii_case("tcp4") }
pub fn s_is_ascii(s: &str) -> bool { s.is_ascii() }
pub fn s_parse_u8(s: &str) -> Option<u8> { s.parse::<u8>().ok() }
pub fn s_parse_u32(s: &str) -> Option<u32> { s.parse::<u32>().ok() }
pub fn s_parse_u16_kind(s: &str) -> usize { match s.parse::<u16>() { Ok(v) => v as usize, Err(e) => 100000 + e.kind().clone() as usize } }
pub fn s_radix(s: &str) -> Option<u16> { u16::from_str_radix(s, 10).ok() }
pub fn s_fromstr(s: &str) -> Option<u16> { <u16 as std::str::FromStr>::from_str(s).ok() }
pub fn s_starts_digit(s: &str) -> bool { s.starts_with(|c: char| c.is_ascii_digit()) }
pub fn s_ends_with_char(s: &str) -> bool { s.ends_with('\r') }
pub fn s_contains_char(s: &str) -> bool { s.contains('\r') }
pub fn s_contains_str(s: &str) -> bool { s.contains("\r\n") }
pub fn s_rfind(s: &str) -> Option<usize> { s.rfind('\r') }
pub fn s_find_str(s: &str) -> Option<usize> { s.find("\r\n") }
pub fn s_split_at(s: &str) -> usize { if s.len() >= 2 && s.is_char_boundary(2) { let (a, b) = s.split_at(2); a.len() * 10 + b.len() } else { 999 } }
pub fn s_get(s: &str) -> Option<&str> { s.get(1..3) }
pub fn b_first_last(b: &[u8]) -> usize { b.first().map(|x| *x as usize).unwrap_or(300) * 1000 + b.last().map(|x| *x as usize).unwrap_or(300) }
pub fn b_get(b: &[u8]) -> Option<u8> { b.get(2).copied() }
pub fn b_split_at(b: &[u8]) -> usize { if b.len() >= 2 { let (x, y) = b.split_at(2); x.len() * 10 + y.len() } else { 999 } }
pub fn b_be16(b: &[u8]) -> Option<u16> { let a: [u8; 2] = b.get(..2)?.try_into().ok()?; Some(u16::from_be_bytes(a)) }
pub fn b_le16(b: &[u8]) -> Option<u16> { if b.len() < 2 { return None; } Some(u16::from_le_bytes([b[0], b[1]])) }
pub fn b_starts(b: &[u8]) -> bool { b.starts_with(b"\r\n") }
pub fn b_contains(b: &[u8]) -> bool { b.contains(&b'\r') }
pub fn b_eq(b: &[u8]) -> bool { b == b"PROXY" }
pub fn b_chunks(b: &[u8]) -> usize { let mut c = b.chunks_exact(2); let a = c.next().map(|x| x[0] as usize).unwrap_or(300); let d = c.next().map(|x| x[1] as usize).unwrap_or(300); a * 1000000 + d * 1000 + c.remainder().len() }
fn take_n<const N: usize>(b: &[u8]) -> Option<[u8; N]> { b.get(..N)?.try_into().ok() }
pub fn b_constgen(b: &[u8]) -> usize { take_n::<3>(b).map(|a| a[2] as usize).unwrap_or(999) }
pub fn u_bits(b: &[u8]) -> usize { let n = b.len(); n + (1usize << u16::BITS) + b.first().copied().map(usize::from).unwrap_or(7) + b.get(1).map(|x| *x as usize + 1).filter(|x| *x > 3).map_or(9, |x| x * 2) }
pub fn u_sat(b: &[u8]) -> usize { let n = b.len(); (n as u16).saturating_add(65533) as usize + n.saturating_sub(3) + n.checked_sub(2).unwrap_or(77) + n.min(2) + n.max(4) }
