"""v2 (binary) half in Engine M: the MIR of `<v2::Header as TryFrom<&[u8]>>::try_from`, `v2::parse_addresses`,
every `v2::Header` view, `TypeLengthValues::next`, the PartialResult impls and (for C13) the builder is executed on
an input of UNBOUNDED symbolic length (models_v2.V2Input): no LMAX, no 240-byte buffer. Obligations:

  v2_ref        every path's verdict (variant, payload, decoded fields, header slice) equals a reference decoder
                written from the PROXY v2 specification as a formula over (S, L)            -> C02, C12, C17 (counts)
  v2_flags      is_incomplete / is_complete (MIR of the PartialResult impls) per verdict     -> C05, C12, C17
  v2_views      every accessor of an accepted header against the partition stated in C14     -> C14, C03
  v2_nopanic    no path of the parser / accessors / iterator step panics                     -> C03
  v2_rel        two lengths over the same byte stream: prefixes (C05), trailers and the header alone (C04),
                completion of a Partial result (C17)
  tlv_step      one `next()` from an ARBITRARY valid cursor state of an arbitrary section equals one step of the
                standard type-length-value walk, keeps the invariant and makes progress (induction over the walk:
                covers sections and values of every size)                                   -> C11, C03
  v2_rebuild    parse -> builder (four ways, builder MIR with Vec as segment list) -> same bytes -> C13

Counterexamples are completed to concrete inputs (<= 200 000 bytes), run through the native replay binary and
compared with an independent Python reference decoder; only a native mismatch is reported."""
import re, time, os
import z3
from core import *
import models
import models_v2
import models_b
from models_b import Seg
from models_v2 import V2Input
import v1sum

SIG = [0x0D, 0x0A, 0x0D, 0x0A, 0x00, 0x0D, 0x0A, 0x51, 0x55, 0x49, 0x54, 0x0A]
FAMSIZE = [0, 12, 36, 216]
FAMNAME = ['Unspecified', 'IPv4', 'IPv6', 'Unix']
CMDNAME = ['Local', 'Proxy']
TRNAME = ['Unspecified', 'Stream', 'Datagram']
RESULT_TY = "std::result::Result<v2::model::Header<'_>, v2::error::ParseError>"
REPLAY_CAP = 200000


# ------------------------------------------------------------------ locating the functions in the MIR
def v2_entry(prog):
    c = [n for (tr, ty, m, n) in prog.impl_index if m == 'try_from' and tr and re.search(r'^TryFrom<&\[u8\]>$', tr) and ty.startswith('Header') and 'src/v2/' in n]
    if len(c) != 1:
        raise Unsupported('v2 entry point: %r' % c)
    return c[0]


def inherent(prog, tyname, meth, where='src/v2/model.rs'):
    c = [n for (tr, ty, m, n) in prog.impl_index if tr is None and m == meth and ty.split('<')[0] == tyname and where in n]
    if len(c) != 1:
        raise Unsupported('%s::%s not found: %r' % (tyname, meth, c))
    return c[0]


def trait_impl(prog, trait_re, ty_re, meth, where='src/v2/'):
    c = [n for (tr, ty, m, n) in prog.impl_index if tr and m == meth and re.search(trait_re, tr) and re.search(ty_re, ty) and where in n]
    if len(c) != 1:
        raise Unsupported('impl %s for %s :: %s not found: %r' % (trait_re, ty_re, meth, c))
    return c[0]


def struct_order(prog, rel, name):
    src = prog.src(rel)
    mm = re.search(r'pub struct %s(?:<[^>]*>)? \{(.*?)\n\}' % name, src, re.S)
    if not mm:
        raise Unsupported('struct %s not found in %s' % (name, rel))
    return re.findall(r'^\s*(?:pub(?:\([^)]*\))? )?(\w+):', mm.group(1), re.M)


def new_exec(prog):
    ex = v1sum.new_exec(prog, [], 0)
    ex.suffix = ''
    import models_it, models_more
    ex.hooks = [models_v2.hook, models_b.hook, models_more.hook, models_it.hook]
    return ex


class P2:
    """one explored path"""

    def __init__(self, script, items, outcome, notes, idx):
        self.script, self.items, self.outcome, self.notes, self.idx = script, items, outcome, notes, idx
        self.pc = [c for _, c in items]

    def kind(self):
        if self.outcome[0] == 'panic':
            return 'Panic'
        return self.outcome[1].variant

    def result(self):
        return self.outcome[1]

    def err(self):
        return self.outcome[1].fields[0]

    def note(self, key):
        for n in self.notes:
            if n[0] == key:
                return n
        return None

    def label(self):
        k = self.kind()
        if k == 'Panic':
            return 'Panic(%s)' % self.outcome[1]
        if k == 'Ok':
            h = self.result().fields[0]
            return 'Ok(%s,%s,%s)' % (h.get('command').variant, h.get('addresses').variant, h.get('protocol').variant)
        return 'Err(%s)' % self.err().variant


def explore_v2(prog, ctx, views=True, with_flags=True):
    """paths of try_from (+ flags, + every view on Ok) over ctx"""
    name = v2_entry(prog)
    ex = new_exec(prog)
    H = lambda m: inherent(prog, 'Header', m)
    view_fns = ['length', 'len', 'is_empty', 'address_family', 'address_bytes', 'tlv_bytes', 'tlvs', 'as_bytes', 'to_owned']

    def run(e):
        ctx.buf.attach(e)
        r = e.call_fn(name, [ctx.slice()], {})
        if with_flags:
            inc = models.dispatch(e, '<%s as PartialResult>::is_incomplete' % RESULT_TY, [Ref(Cell(r))], {'generics': {}})
            comp = models.dispatch(e, '<%s as PartialResult>::is_complete' % RESULT_TY, [Ref(Cell(r))], {'generics': {}})
            e.notes.append(('flags', inc, comp))
        if views and r.variant == 'Ok':
            h = r.fields[0]
            vals = {}
            for m in view_fns:
                vals[m] = e.call_fn(H(m), [Ref(Cell(h))], {})
            t = vals['tlvs']
            vals['tlvs.as_bytes'] = e.call_fn(inherent(prog, 'TypeLengthValues', 'as_bytes'), [Ref(Cell(t))], {})
            vals['tlvs.len'] = e.call_fn(inherent(prog, 'TypeLengthValues', 'len'), [Ref(Cell(t))], {})
            vals['tlvs.is_empty'] = e.call_fn(inherent(prog, 'TypeLengthValues', 'is_empty'), [Ref(Cell(t))], {})
            a = h.get('addresses')
            vals['addr.family'] = e.call_fn(inherent(prog, 'Addresses', 'address_family'), [Ref(Cell(a))], {})
            vals['addr.len'] = e.call_fn(inherent(prog, 'Addresses', 'len'), [Ref(Cell(a))], {})
            vals['addr.is_empty'] = e.call_fn(inherent(prog, 'Addresses', 'is_empty'), [Ref(Cell(a))], {})
            vals['fam.byte_length'] = e.call_fn(inherent(prog, 'AddressFamily', 'byte_length'), [Ref(Cell(vals['address_family']))], {})
            vals['fam.u16'] = models.dispatch(e, '<u16 as std::convert::From<v2::model::AddressFamily>>::from', [vals['address_family']], {'generics': {}})
            vals['vc'] = models.dispatch(e, '<v2::model::Version as std::ops::BitOr<v2::model::Command>>::bitor', [h.get('version'), h.get('command')], {'generics': {}})
            vals['afp'] = models.dispatch(e, '<v2::model::Protocol as std::ops::BitOr<v2::model::AddressFamily>>::bitor', [h.get('protocol'), vals['address_family']], {'generics': {}})
            e.notes.append(('views', vals))
        return r
    res = explore(ex, run, base_axioms=ctx.axioms)
    return [P2(sc, items, out, notes, i) for i, (sc, items, out, notes) in enumerate(res)], STATS['checks']


# ------------------------------------------------------------------ reference decoder as a formula (from the specification)
class Ref2:
    def __init__(self, ctx):
        S, L = ctx.S, ctx.L
        b = lambda i: S(i)
        self.b = b
        self.L = L
        self.sig_all = z3.And([b(i) == SIG[i] for i in range(12)])
        self.sig_prefix = z3.And([z3.Or(L <= i, b(i) == SIG[i]) for i in range(12)])
        self.ver = b(12) / 16
        self.cmd = b(12) % 16
        self.fam = b(13) / 16
        self.tr = b(13) % 16
        self.ln = b(14) * 256 + b(15)
        self.need = z3.If(self.fam == 1, 12, z3.If(self.fam == 2, 36, z3.If(self.fam == 3, 216, 0)))
        fixed = z3.And(L >= 16, self.sig_all)
        c = {}
        c['Incomplete'] = z3.Or(z3.And(L < 12, self.sig_prefix), z3.And(L >= 12, L < 16, self.sig_all))
        c['Prefix'] = z3.Or(z3.And(L < 12, z3.Not(self.sig_prefix)), z3.And(L >= 12, z3.Not(self.sig_all)))
        c['Version'] = z3.And(fixed, self.ver != 2)
        c['Command'] = z3.And(fixed, self.ver == 2, self.cmd >= 2)
        ok_vc = z3.And(fixed, self.ver == 2, self.cmd <= 1)
        c['AddressFamily'] = z3.And(ok_vc, self.fam >= 4)
        c['Protocol'] = z3.And(ok_vc, self.fam <= 3, self.tr >= 3)
        ok_ctl = z3.And(ok_vc, self.fam <= 3, self.tr <= 2)
        c['InvalidAddresses'] = z3.And(ok_ctl, self.ln < self.need)
        c['Partial'] = z3.And(ok_ctl, self.ln >= self.need, L < 16 + self.ln)
        c['Ok'] = z3.And(ok_ctl, self.ln >= self.need, L >= 16 + self.ln)
        self.cls = c
        self.incomplete = z3.Or(c['Incomplete'], c['Partial'])

    def payload(self, variant):
        return {'Incomplete': [self.L], 'Prefix': [], 'Version': [self.ver * 16], 'Command': [self.cmd], 'AddressFamily': [self.fam * 16],
                'Protocol': [self.tr], 'InvalidAddresses': [self.ln, self.need], 'Partial': [self.L - 16, self.ln]}[variant]


def field(st, name):
    return st.get(name)


def octs_of(v):
    v = deref(v) if isinstance(v, Ref) else v
    if isinstance(v, Opaque) and v.kind == 'ip' and getattr(v, 'octs', None):
        return list(v.octs)
    raise Unsupported('address value without octets: %r' % (v,))


def decoded_matches(ctx, rf, h):
    """formula: the Header value h is the reference decoding of (S, L); None if the shape is wrong"""
    b = rf.b
    hd = h.get('header')
    if not (isinstance(hd, Enum) and hd.variant == 'Borrowed'):
        return False
    s = hd.fields[0]
    if not (isinstance(s, Str) and s.buf is ctx.buf):
        return False
    cs = [eq(s.start, 0), eq(s.end, 16 + rf.ln)]
    if h.get('version').variant != 'Two':
        return False
    cmd, tr, a = h.get('command').variant, h.get('protocol').variant, h.get('addresses')
    if cmd not in CMDNAME or tr not in TRNAME or a.variant not in FAMNAME:
        return False
    cs += [rf.cmd == CMDNAME.index(cmd), rf.tr == TRNAME.index(tr), rf.fam == FAMNAME.index(a.variant)]
    if a.variant in ('IPv4', 'IPv6'):
        n = 4 if a.variant == 'IPv4' else 16
        ip = a.fields[0]
        src, dst = octs_of(ip.get('source_address')), octs_of(ip.get('destination_address'))
        if len(src) != n or len(dst) != n:
            return False
        cs += [eq(src[i], b(16 + i)) for i in range(n)]
        cs += [eq(dst[i], b(16 + n + i)) for i in range(n)]
        cs += [eq(ip.get('source_port'), b(16 + 2 * n) * 256 + b(17 + 2 * n)), eq(ip.get('destination_port'), b(18 + 2 * n) * 256 + b(19 + 2 * n))]
    elif a.variant == 'Unix':
        ux = a.fields[0]
        src, dst = ux.get('source'), ux.get('destination')
        if not (isinstance(src, Tuple) and isinstance(dst, Tuple) and len(src.items) == 108 and len(dst.items) == 108):
            return False
        cs += [eq(src.items[i], b(16 + i)) for i in range(108)]
        cs += [eq(dst.items[i], b(124 + i)) for i in range(108)]
    elif a.fields:
        return False
    return and_(*cs)


def verdict_matches(ctx, rf, p):
    """formula: the outcome of path p is the reference verdict on (S, L)"""
    if p.kind() == 'Panic':
        return False
    if p.kind() == 'Ok':
        return and_(rf.cls['Ok'], decoded_matches(ctx, rf, p.result().fields[0]))
    e = p.err()
    if e.variant not in rf.cls:
        return False
    want = rf.payload(e.variant)
    if len(e.fields) != len(want):
        return False
    return and_(rf.cls[e.variant], *[eq(x, y) for x, y in zip(e.fields, want)])


# ------------------------------------------------------------------ concrete inputs from models; reference decoder in Python
def model_input(m, ctx, cap=REPLAY_CAP):
    n = m.eval(ctx.L, model_completion=True).as_long()
    if n > cap:
        return None
    fi = m[ctx.S]
    data = bytearray(n)
    if fi is not None:
        els = fi.else_value()
        try:
            d = m.eval(els, model_completion=True).as_long() if els is not None else 0
        except Exception:
            d = 0
        if 0 <= d <= 255:
            for i in range(n):
                data[i] = d
        for k in range(fi.num_entries()):
            en = fi.entry(k)
            try:
                i = en.arg_value(0).as_long()
                v = en.value().as_long()
            except Exception:
                continue
            if 0 <= i < n and 0 <= v <= 255:
                data[i] = v
    # fixed offsets are constrained by the base axioms: evaluate them explicitly (robust against else-values)
    for i in range(min(n, 16 + 216)):
        v = m.eval(ctx.S(i), model_completion=True).as_long()
        data[i] = v if 0 <= v <= 255 else 0
    return bytes(data)


def py_walk(sec):
    out = []
    o = 0
    n = len(sec)
    while o < n:
        if n - o < 3:
            out.append('L%d' % n)
            break
        t, l = sec[o], sec[o + 1] * 256 + sec[o + 2]
        if n - o < 3 + l:
            out.append('I%d:%d' % (t, l))
            break
        out.append('O%d:%d:%d' % (t, o + 3, l))
        o += 3 + l
    return ','.join(out) + ';end'


def py_v2x(inp):
    """reference rendering of the `v2x` entry of the replay binary (written from the specification)"""
    n = len(inp)
    tf = lambda x: 'true' if x else 'false'

    def err(d, inc):
        return 'Err %s inc=%s comp=%s' % (d, tf(inc), tf(not inc))
    if n < 12:
        return err('Incomplete(%d)' % n, True) if bytes(SIG[:n]) == inp else err('Prefix', False)
    if inp[:12] != bytes(SIG):
        return err('Prefix', False)
    if n < 16:
        return err('Incomplete(%d)' % n, True)
    ver, cmd, fam, tr = inp[12] >> 4, inp[12] & 15, inp[13] >> 4, inp[13] & 15
    if ver != 2:
        return err('Version(%d)' % (ver << 4), False)
    if cmd > 1:
        return err('Command(%d)' % cmd, False)
    if fam > 3:
        return err('AddressFamily(%d)' % (fam << 4), False)
    if tr > 2:
        return err('Protocol(%d)' % tr, False)
    ln = inp[14] * 256 + inp[15]
    need = FAMSIZE[fam]
    if ln < need:
        return err('InvalidAddresses(%d,%d)' % (ln, need), False)
    if n < 16 + ln:
        return err('Partial(%d,%d)' % (n - 16, ln), True)
    alen = ln if fam == 0 else need
    tb = inp[16 + alen:16 + ln]
    return ('Ok hdr=0:%d ver=2 cmd=%d tr=%d fam=%d addr=%s inc=false comp=true ab=16:%d tb=%d:%d length=%d len=%d empty=false asb=0:%d afam=%d alen=%d aempty=%s '
            'bl=%d fu16=%d tlvs=%d:%d tlvslen=%d tlvsempty=%s vc=%d afp=%d owned=true walk=%s') % (
        16 + ln, cmd, tr, fam, inp[16:16 + need].hex(), alen, 16 + alen, len(tb), ln, 16 + ln, 16 + ln, fam, need, tf(need == 0),
        (need if fam else -1), need, 16 + alen, len(tb), len(tb) % 65536, tf(len(tb) == 0), 0x20 | cmd, (fam << 4) | tr, py_walk(tb))


def py_tlvx(sec):
    return 'tlvs=0:%d tlvslen=%d tlvsempty=%s walk=%s' % (len(sec), len(sec) % 65536, 'true' if len(sec) == 0 else 'false', py_walk(sec))


def ok_core(line):
    """the part of a v2x Ok line that must not depend on what follows the header"""
    return line


def replay(cex, native):
    """True = the natively compiled crate (dev or release) deviates from the reference / violates the relation"""
    runs = [(e, bytes.fromhex(h)) for e, h in cex['runs']]
    notes = []
    hit = False
    for prof in ('dev', 'release'):
        lines = native(runs, prof)
        k = cex['violated_if']
        bad = None
        if k == 'v2_ref':
            for (e, inp), line in zip(runs, lines):
                want = py_v2x(inp) if e == 'v2x' else py_tlvx(inp)
                # the payload of a Leftovers item is not specified by the property: compare modulo that number
                line, want = re.sub(r'\bL\d+', 'L', line), re.sub(r'\bL\d+', 'L', want)
                if len(inp) > 65535:
                    # TypeLengthValues::len() of a stand-alone section longer than a u16 is not specified either
                    line, want = re.sub(r'tlvslen=\d+', 'tlvslen=_', line), re.sub(r'tlvslen=\d+', 'tlvslen=_', want)
                if line != want:
                    ta, tb = line.split(' '), want.split(' ')
                    diff = [(x, y) for x, y in zip(ta, tb) if x != y][:4]
                    bad = 'native vs reference differ in %s (native `%s...`)' % ('; '.join('%s / %s' % (x[:60], y[:60]) for x, y in diff) or 'length', line[:80])
        elif k == 'v2_rebuild':
            if not lines[0].startswith('rebuild') or '0' in lines[0].split(' ', 1)[1].replace('a=', '').replace('b=', '').replace('c=', '').replace('d=', '') or 'E' in lines[0].split(' ', 1)[1]:
                bad = lines[0]
        elif k == 'v2_prefix':
            if lines[0].startswith('Ok') and not (lines[1].startswith('Err') and 'inc=true comp=false' in lines[1]):
                bad = 'header accepted, prefix of %d bytes -> %s' % (len(runs[1][1]), lines[1][:200])
        elif k == 'v2_trailer':
            if lines[0].startswith('Ok') and lines[0] != lines[1]:
                bad = 'accepted `%s` but with another trailer / alone `%s`' % (lines[0][:200], lines[1][:200])
        elif k == 'v2_completion':
            want = py_v2x(runs[1][1])
            if lines[1] != want:
                bad = 'after supplying bytes: `%s`, expected `%s`' % (lines[1][:200], want[:200])
        else:
            raise Unsupported('unknown v2 replay predicate ' + k)
        notes.append('%s: %s' % (prof, bad or 'as the reference'))
        hit = hit or bool(bad)
    cex['native'] = notes
    return hit, '; '.join(notes)


# ------------------------------------------------------------------ deciding
def solve(ctx, pc, neg, label, mk, extra=()):
    import props_v1
    return props_v1.decide(ctx, list(extra) + list(pc), neg, label, mk, realize=[ctx.L <= REPLAY_CAP])


def cex1(ctx, m, kind, summary, entry='v2x'):
    b = model_input(m, ctx)
    if b is None:
        return None
    return {'v2': True, 'runs': [[entry, b.hex()]], 'violated_if': kind, 'summary': '%s on the %d-byte input %s%s' % (summary, len(b), b[:40].hex(), '...' if len(b) > 40 else '')}


def rec_fix(recs, ob, kind, idx):
    for r in recs:
        r['task'] = [ob, kind, idx]
    return recs


def static_fail(ob, label, summary, idx=0):
    """a violation that needs no solver (wrong shape of a value on an explored path): reported as a candidate,
    confirmed natively on a witness of that path"""
    return {'label': label, 'task': [ob, 'v2', idx], 'solver_s': 0.0, 'status': 'sat', 'cex': None, 'detail': summary}


def ob_ref(prog, ctx, paths, which):
    """which: set of clauses to check: 'accept' (Ok <=> well-formed + decode: C02), 'blame' (terminal errors: C12),
    'counts' (Incomplete / Partial payloads: C17), 'flags', 'nopanic'"""
    rf = Ref2(ctx)
    recs = []
    for p in paths:
        k = p.kind()
        lab = 'v2_ref:%s#%d' % (p.label(), p.idx)
        if k == 'Panic':
            if 'nopanic' in which or True:
                recs += rec_fix(solve(ctx, p.pc, z3.BoolVal(True), 'v2_nopanic:' + lab, lambda m, p=p: cex1(ctx, m, 'v2_ref', 'v2 parser panics (%s)' % p.outcome[1])), 'v2_nopanic', 'v2', p.idx)
            continue
        rel = ('accept' in which) or ('blame' in which and k == 'Err' and p.err().variant not in ('Incomplete', 'Partial')) or \
              ('counts' in which and k == 'Err' and p.err().variant in ('Incomplete', 'Partial'))
        if 'accept' in which and k == 'Err':
            # acceptance clause only: an Err path must not be taken on a well-formed input
            pass
        if rel:
            if 'accept' in which and not ('blame' in which or 'counts' in which) and k == 'Err':
                neg = rf.cls['Ok']
            else:
                neg = not_(verdict_matches(ctx, rf, p))
            neg = z3.BoolVal(neg) if isinstance(neg, bool) else neg
            recs += rec_fix(solve(ctx, p.pc, neg, lab, lambda m, p=p: cex1(ctx, m, 'v2_ref', 'v2 verdict %s differs from the reference decoder' % p.label())), 'v2_ref', 'v2', p.idx)
        if 'flags' in which:
            f = p.note('flags')
            inc, comp = f[1], f[2]
            if not isinstance(inc, bool) or not isinstance(comp, bool):
                raise Unsupported('is_incomplete / is_complete not concrete on a v2 path')
            # flags against the REFERENCE class of the input (not the returned variant): incomplete <=> Incomplete / Partial
            neg = z3.Or(rf.incomplete != z3.BoolVal(inc), z3.BoolVal(comp == inc))
            recs += rec_fix(solve(ctx, p.pc, neg, 'v2_flags:' + lab, lambda m, p=p: cex1(ctx, m, 'v2_ref', 'is_incomplete / is_complete of %s are not those of the reference verdict' % p.label())), 'v2_flags', 'v2', p.idx)
    return recs


def ob_views(prog, ctx, paths):
    rf = Ref2(ctx)
    recs = []
    for p in paths:
        if p.kind() != 'Ok':
            continue
        v = p.note('views')[1]
        h = p.result().fields[0]
        fam = FAMNAME.index(h.get('addresses').variant) if h.get('addresses').variant in FAMNAME else -1
        need = FAMSIZE[fam] if fam >= 0 else 0
        alen = rf.ln if fam == 0 else need
        k = 16 + rf.ln
        cs = []

        def is_slice(x, lo, hi):
            x = models_v2.as_slice(x)
            if not (isinstance(x, Str) and x.buf is ctx.buf):
                return False
            return and_(eq(x.start, lo), eq(x.end, hi))
        cs.append(is_slice(v['address_bytes'], 16, 16 + alen))
        cs.append(is_slice(v['tlv_bytes'], 16 + alen, k))
        cs.append(is_slice(v['as_bytes'], 0, k))
        cs.append(is_slice(v['tlvs.as_bytes'], 16 + alen, k))
        cs += [eq(v['length'], rf.ln), eq(v['len'], k), eq(v['is_empty'], False)]
        t = v['tlvs']
        order = struct_order(prog, 'src/v2/model.rs', 'TypeLengthValues')
        if isinstance(t, Struct) and 'offset' in order and 'bytes' in order:
            cs.append(eq(t.fields[order.index('offset')], 0))
            cs.append(is_slice(t.fields[order.index('bytes')], 16 + alen, k))
        # (another representation of the iterator: only its public view `tlvs().as_bytes()` is checked, above)
        cs.append(eq(v['tlvs.len'], (rf.ln - alen) % 65536))
        cs.append(eq(v['tlvs.is_empty'], rf.ln - alen == 0))
        af = v['address_family']
        cs.append(isinstance(af, Enum) and af.variant == FAMNAME[fam] and v['addr.family'].variant == FAMNAME[fam])
        cs += [eq(v['addr.len'], need), eq(v['addr.is_empty'], need == 0)]
        bl = v['fam.byte_length']
        cs.append((bl.variant == 'None') if fam == 0 else (bl.variant == 'Some' and eq(bl.fields[0], need)))
        cs += [eq(v['fam.u16'], need), eq(v['vc'], 0x20 + rf.cmd), eq(v['afp'], fam * 16 + rf.tr)]
        # owned copy: same field values, content-preserving copy of the header bytes
        o = v['to_owned']
        oh = o.get('header') if isinstance(o, Struct) else None
        if oh is None or not (isinstance(oh, Enum) and oh.variant == 'Owned'):
            cs.append(False)
        else:
            cs.append(is_slice(oh.fields[0], 0, k))
            for nm in ('version', 'command', 'protocol'):
                cs.append(o.get(nm).variant == h.get(nm).variant)
            cs.append(o.get('addresses') is h.get('addresses') or repr(o.get('addresses')) == repr(h.get('addresses')))
        good = and_(*cs)
        neg = not_(good)
        neg = z3.BoolVal(neg) if isinstance(neg, bool) else neg
        recs += rec_fix(solve(ctx, p.pc, neg, 'v2_views:%s#%d' % (p.label(), p.idx),
                              lambda m, p=p: cex1(ctx, m, 'v2_ref', 'a view of the accepted header %s is not the partition C14 states' % p.label())), 'v2_views', 'v2', p.idx)
    return recs


def same_header(p, q):
    """formula: Ok paths p, q (over the same S) report identical results"""
    a, b = p.result().fields[0], q.result().fields[0]
    for nm in ('version', 'command', 'protocol'):
        if a.get(nm).variant != b.get(nm).variant:
            return False
    if a.get('addresses').variant != b.get('addresses').variant:
        return False
    sa, sb = a.get('header').fields[0], b.get('header').fields[0]
    cs = [eq(sa.start, sb.start), eq(sa.end, sb.end)]
    x, y = a.get('addresses'), b.get('addresses')
    if x.variant in ('IPv4', 'IPv6'):
        for nm in ('source_address', 'destination_address'):
            cs += [eq(u, w) for u, w in zip(octs_of(x.fields[0].get(nm)), octs_of(y.fields[0].get(nm)))]
        for nm in ('source_port', 'destination_port'):
            cs.append(eq(x.fields[0].get(nm), y.fields[0].get(nm)))
    elif x.variant == 'Unix':
        for nm in ('source', 'destination'):
            cs += [eq(u, w) for u, w in zip(x.fields[0].get(nm).items, y.fields[0].get(nm).items)]
    return and_(*cs)


def cex2(ctx, ctx2, m, kind, summary):
    n1 = m.eval(ctx.L, model_completion=True).as_long()
    n2 = m.eval(ctx2.L, model_completion=True).as_long()
    if max(n1, n2) > REPLAY_CAP:
        return None
    big = ctx if n1 >= n2 else ctx2
    data = model_input(m, big)
    return {'v2': True, 'runs': [['v2x', data[:n1].hex()], ['v2x', data[:n2].hex()]], 'violated_if': kind,
            'summary': '%s: first input %d bytes, second %d bytes of the same stream %s...' % (summary, n1, n2, data[:32].hex())}


def ob_rel(prog, ctx, paths, which):
    """relations between two lengths of the same byte stream. which: subset of {'prefix','trailer','completion'}.
    One query per (path of the first run, clause): the disjunction over all paths q of the second run of
    `q is taken and the relation fails` must be unsatisfiable (path conditions of the v2 parser have no fresh
    variables, so they can be combined freely)."""
    ctx2 = V2Input(suffix='_2', share=ctx)
    paths2, _ = explore_v2(prog, ctx2, views=False)
    rf = Ref2(ctx)
    recs = []
    k = 16 + rf.ln
    both = lambda m_, kind, summ: cex2(ctx, ctx2, m_, kind, summ)

    def one(p, clause, alts, kind, summ):
        alts = [a for a in alts if a is not None]
        if not alts:
            return
        neg = z3.Or([z3.And(list(q.pc) + [Z(f)]) for q, f in alts])
        rs = solve(ctx, p.pc, neg, '%s:%s#%d' % (clause, p.label(), p.idx), lambda m: both(m, kind, summ), extra=ctx2.axioms)
        recs.extend(rec_fix(rs, clause, 'v2', p.idx))
    for p in paths:
        if p.kind() == 'Ok':
            if 'prefix' in which:
                alts = []
                for q in paths2:
                    f = q.note('flags')
                    good_q = q.kind() == 'Err' and f[1] is True and f[2] is False
                    if not good_q:
                        alts.append((q, ctx2.L < k))
                one(p, 'v2_prefix', alts, 'v2_prefix', 'a proper prefix of an accepted v2 header is not reported incomplete')
            if 'trailer' in which:
                alts = []
                for q in paths2:
                    if q.kind() != 'Ok':
                        alts.append((q, ctx2.L >= k))
                    else:
                        sm = same_header(p, q)
                        if isinstance(sm, bool):
                            if not sm:
                                alts.append((q, ctx2.L >= k))
                        else:
                            alts.append((q, z3.And(ctx2.L >= k, z3.Not(sm))))
                one(p, 'v2_trailer', alts, 'v2_trailer', 'an accepted v2 header is not accepted identically with another trailer / on its own')
        elif p.kind() == 'Err' and p.err().variant == 'Partial' and 'completion' in which:
            a_ok, a_mid = [], []
            mid = z3.And(ctx2.L > ctx.L, ctx2.L < k)
            for q in paths2:
                if q.kind() != 'Ok':
                    a_ok.append((q, ctx2.L == k))
                good = q.kind() == 'Err' and q.err().variant == 'Partial' and len(q.err().fields) == 2
                if not good:
                    a_mid.append((q, mid))
                else:
                    a_mid.append((q, z3.And(mid, z3.Or(Z(q.err().fields[0]) != ctx2.L - 16, Z(q.err().fields[1]) != rf.ln))))
            one(p, 'v2_completion_ok', a_ok, 'v2_completion', 'supplying exactly the missing bytes of a Partial result does not give success')
            one(p, 'v2_completion_partial', a_mid, 'v2_completion', 'supplying fewer than the missing bytes does not leave a Partial result with updated counts')
    return recs, len(paths2)


# ------------------------------------------------------------------ TLV iterator: one inductive step
def tlv_state(prog, sec, offset):
    order = struct_order(prog, 'src/v2/model.rs', 'TypeLengthValues')
    if sorted(order) != ['bytes', 'offset']:
        raise Unsupported('TypeLengthValues has fields %r: the cursor invariant of the step obligation is written for {bytes, offset}' % order)
    st = Struct('v2::model::TypeLengthValues', {})
    vals = {'bytes': sec, 'offset': offset}
    st.fields = {i: vals[n] for i, n in enumerate(order)}
    st.names = {n: i for i, n in enumerate(order)}
    return st


def ob_tlv_walk(prog, steps=3):
    """representation-independent fallback of the step obligation (used when TypeLengthValues is no longer
    {bytes, offset}): the iterator is built by the crate's own `From<&[u8]>` over S[0, L) (any length) and `next()`
    is called `steps` + 1 times; every call must return what the reference walk returns at that point."""
    ctx = V2Input(suffix='_w')
    nxt = trait_impl(prog, r'^Iterator$', r'^TypeLengthValues', 'next')
    frm = trait_impl(prog, r'^From<&\[u8\]>$', r'^TypeLengthValues', 'from')
    ex = new_exec(prog)

    def run(e):
        ctx.buf.attach(e)
        it = e.call_fn(frm, [ctx.slice()], {})
        cell = Cell(it)
        outs = []
        for _ in range(steps + 1):
            outs.append(e.call_fn(nxt, [Ref(cell)], {}))
        e.notes.append(('walk', outs))
        return outs[-1]
    res = explore(ex, run, base_axioms=ctx.axioms, max_paths=4000)
    recs = []
    S, L = ctx.S, ctx.L
    for i, (sc, items, out, notes) in enumerate(res):
        pc = [c for _, c in items]

        def mk(m, summary='TLV iteration deviates from the standard walk'):
            data = model_input(m, ctx)
            if data is None:
                return None
            return {'v2': True, 'runs': [['tlvx', data.hex()]], 'violated_if': 'v2_ref', 'summary': '%s on a section of %d bytes' % (summary, len(data))}
        if out[0] == 'panic':
            recs += rec_fix(solve(ctx, pc, z3.BoolVal(True), 'tlv_walk#%d:panic' % i, lambda m: mk(m, 'TLV iteration panics (%s)' % out[1])), 'tlv_step', 'tlv', i)
            continue
        outs = [n for n in notes if n[0] == 'walk'][0][1]
        o = 0           # reference cursor (symbolic), None once the walk has ended
        ended = False
        cs = []
        for r in outs:
            if ended:
                cs.append(r.variant == 'None')
                continue
            rem = L - o
            t, ln = S(Z(o)), S(Z(o) + 1) * 256 + S(Z(o) + 2)
            if r.variant == 'None':
                cs.append(Z(o) >= L)
                ended = True
                continue
            it = r.fields[0]
            if it.variant == 'Err':
                e_ = it.fields[0]
                if e_.variant == 'Leftovers' and len(e_.fields) == 1:
                    cs.append(and_(Z(o) < L, rem < 3))      # the payload of Leftovers is not specified by C11
                elif e_.variant == 'InvalidTLV' and len(e_.fields) == 2:
                    cs.append(and_(Z(o) < L, rem >= 3, rem < 3 + ln, eq(e_.fields[0], t), eq(e_.fields[1], ln)))
                else:
                    cs.append(False)
                ended = True
                continue
            tv = it.fields[0]
            val = tv.get('value')
            vs = val.fields[0] if isinstance(val, Enum) and val.variant == 'Borrowed' else None
            if not (isinstance(vs, Str) and vs.buf is ctx.buf):
                cs.append(False)
                break
            cs.append(and_(Z(o) < L, rem >= 3, rem >= 3 + ln, eq(tv.get('kind'), t), eq(vs.start, o + 3), eq(vs.end, o + 3 + ln)))
            o = o + 3 + ln
        neg = not_(and_(*cs))
        neg = z3.BoolVal(neg) if isinstance(neg, bool) else neg
        recs += rec_fix(solve(ctx, pc, neg, 'tlv_walk#%d' % i, mk), 'tlv_step', 'tlv', i)
    return recs, len(res)


def ob_tlv_step(prog):
    """`next()` from an arbitrary valid state (section = S[0, L) of any length, cursor o with 0 <= o <= L and
    (o = 0 or o >= 3 or o = L): the states reachable by the walk) equals one step of the reference walk."""
    if sorted(struct_order(prog, 'src/v2/model.rs', 'TypeLengthValues')) != ['bytes', 'offset']:
        return ob_tlv_walk(prog)
    ctx = V2Input(suffix='_t')
    nxt = trait_impl(prog, r'^Iterator$', r'^TypeLengthValues', 'next')
    O = z3.Int('tlv_o')
    inv = z3.And(O >= 0, O <= ctx.L, z3.Or(O == 0, O >= 3, O == ctx.L))
    ex = new_exec(prog)

    def run(e):
        ctx.buf.attach(e)
        e.assume(inv, 'd')
        st = tlv_state(prog, ctx.slice(), O)
        cell = Cell(st)
        r = e.call_fn(nxt, [Ref(cell)], {})
        e.notes.append(('state', cell.v))
        if r.variant == 'Some' and r.fields[0].variant == 'Ok':
            tv = r.fields[0].fields[0]
            T = lambda m: inherent(prog, 'TypeLengthValue', m)
            e.notes.append(('item', e.call_fn(T('len'), [Ref(Cell(tv))], {}), e.call_fn(T('is_empty'), [Ref(Cell(tv))], {}), e.call_fn(T('to_owned'), [Ref(Cell(tv))], {})))
        return r
    res = explore(ex, run, base_axioms=ctx.axioms)
    recs = []
    S, L = ctx.S, ctx.L
    rem = L - O
    t, ln = S(O), S(O + 1) * 256 + S(O + 2)
    byte_facts = [z3.And(S(O + i) >= 0, S(O + i) <= 255) for i in range(3)]
    for i, (sc, items, out, notes) in enumerate(res):
        pc = [c for _, c in items] + byte_facts
        lab = 'tlv_step#%d' % i

        def mk(m, summary='TLV iteration step deviates from the standard walk'):
            data = model_input(m, ctx)
            if data is None:
                return None
            o = m.eval(O, model_completion=True).as_long()
            data = bytearray(data)
            # make the cursor state reachable: one well-formed item covering [0, o) (the step never reads it)
            if 3 <= o <= len(data) and o - 3 <= 65535:
                data[0], data[1], data[2] = 0, (o - 3) >> 8, (o - 3) & 255
            elif o != 0:
                return None
            return {'v2': True, 'runs': [['tlvx', bytes(data).hex()]], 'violated_if': 'v2_ref',
                    'summary': '%s: section of %d bytes, cursor at %d' % (summary, len(data), o)}
        if out[0] == 'panic':
            recs += rec_fix(solve(ctx, pc, z3.BoolVal(True), lab + ':panic', lambda m: mk(m, 'TLV iteration panics (%s)' % out[1])), 'tlv_step', 'tlv', i)
            continue
        r = out[1]
        st = [n for n in notes if n[0] == 'state'][0][1]
        o2 = st.get('offset')
        sec2 = st.get('bytes')
        same_sec = isinstance(sec2, Str) and sec2.buf is ctx.buf and eq(sec2.start, 0) is True and eq(sec2.end, L) is True
        # reference step
        c_none = O >= L
        c_left = z3.And(O < L, rem < 3)
        c_over = z3.And(O < L, rem >= 3, rem < 3 + ln)
        c_item = z3.And(O < L, rem >= 3, rem >= 3 + ln)
        if not same_sec:
            good = False
        elif r.variant == 'None':
            good = and_(c_none, eq(o2, O))
        else:
            it = r.fields[0]
            if it.variant == 'Err':
                e_ = it.fields[0]
                if e_.variant == 'Leftovers' and len(e_.fields) == 1:
                    good = and_(c_left, eq(o2, L))       # the payload of Leftovers is not specified by C11
                elif e_.variant == 'InvalidTLV' and len(e_.fields) == 2:
                    good = and_(c_over, eq(e_.fields[0], t), eq(e_.fields[1], ln), eq(o2, L))
                else:
                    good = False
            else:
                tv = it.fields[0]
                val = tv.get('value')
                vs = val.fields[0] if isinstance(val, Enum) and val.variant == 'Borrowed' else None
                if not (isinstance(vs, Str) and vs.buf is ctx.buf):
                    good = False
                else:
                    good = and_(c_item, eq(tv.get('kind'), t), eq(vs.start, O + 3), eq(vs.end, O + 3 + ln), eq(o2, O + 3 + ln))
                    # the item's own accessors and its owned copy (C16): len, is_empty, to_owned = same kind + content-preserving copy
                    itn = [n for n in notes if n[0] == 'item']
                    if itn:
                        _, ilen, iempty, own = itn[0]
                        ov = own.get('value') if isinstance(own, Struct) else None
                        os_ = models_v2.as_slice(ov.fields[0]) if isinstance(ov, Enum) and ov.variant == 'Owned' else None
                        if not (isinstance(os_, Str) and os_.buf is ctx.buf):
                            good = False
                        else:
                            good = and_(good, eq(ilen, ln), eq(iempty, ln == 0), eq(own.get('kind'), t), eq(os_.start, O + 3), eq(os_.end, O + 3 + ln))
        # invariant preserved, and progress (every yielded item moves the cursor forward by >= 3 or to the end: at most n/3 + 1 items)
        inv2 = and_(ge(o2, 0), le(o2, L), or_(eq(o2, 0), ge(o2, 3), eq(o2, L)))
        prog_ok = True if r.variant == 'None' else or_(ge(o2, O + 3), and_(eq(o2, L), gt(L, O)))
        neg = not_(and_(good, inv2, prog_ok))
        neg = z3.BoolVal(neg) if isinstance(neg, bool) else neg
        recs += rec_fix(solve(ctx, pc, neg, lab, mk), 'tlv_step', 'tlv', i)
    # after an error the state is (L, ...): the step from o = L is None (covered above by c_none) -> nothing after an error
    return recs, len(res)


# ------------------------------------------------------------------ C13: parse -> rebuild
def seg_is_slice(seg, ctx, lo, hi):
    """formula: the segment list equals S[lo, hi)"""
    off = lo
    cs = []
    for kind, v in seg.norm():
        if kind == 'b':
            for i, x in enumerate(v):
                cs.append(eq(x, ctx.S(Z(add(off, i)))))
            off = add(off, len(v))
        else:
            v = models_v2.as_slice(v)
            if isinstance(v, ArrSlice):
                for i, x in enumerate(v.items):
                    cs.append(eq(x, ctx.S(Z(add(off, i)))))
                off = add(off, len(v.items))
                continue
            if not (isinstance(v, Str) and v.buf is ctx.buf):
                return False
            cs.append(eq(v.start, off))
            off = v.end
    cs.append(eq(off, hi))
    return and_(*cs)


def ob_rebuild(prog, max_items=2):
    ctx = V2Input(suffix='_r')
    name = v2_entry(prog)
    import props_b
    B = lambda s: props_b.bfn(prog, s)
    H = lambda m: inherent(prog, 'Header', m)
    nxt = trait_impl(prog, r'^Iterator$', r'^TypeLengthValues', 'next')
    rf = Ref2(ctx)
    ex = new_exec(prog)
    WAYS = ['raw', 'section', 'address_value', 'items']

    def run(e):
        ctx.buf.attach(e)
        r = e.call_fn(name, [ctx.slice()], {})
        if r.variant != 'Ok':
            return ('skip', None)
        h = r.fields[0]
        way = WAYS[e.choose(len(WAYS))]
        ab = e.call_fn(H('address_bytes'), [Ref(Cell(h))], {})
        tb = e.call_fn(H('tlv_bytes'), [Ref(Cell(h))], {})
        vc, afp = ctx.S(12), ctx.S(13)
        W = lambda b, v, ty: e.call_fn(B('write_payload'), [b, v], {'T': ty})

        def chain(b, steps):
            for v, ty in steps:
                rr = W(b, v, ty)
                if rr.variant != 'Ok':
                    return None
                b = rr.fields[0]
            rr = e.call_fn(B('build'), [b], {})
            return rr if rr.variant == 'Ok' else None
        if way == 'raw':
            out = chain(e.call_fn(B('new'), [vc, afp], {}), [(ab, '&[u8]'), (tb, '&[u8]')])
        elif way == 'section':
            tl = e.call_fn(H('tlvs'), [Ref(Cell(h))], {})
            out = chain(e.call_fn(B('new'), [vc, afp], {}), [(ab, '&[u8]'), (tl, "v2::model::TypeLengthValues<'_>")])
        elif way == 'address_value':
            if h.get('addresses').variant == 'Unspecified':
                return ('skip', None)
            vcv = models.dispatch(e, '<v2::model::Version as std::ops::BitOr<v2::model::Command>>::bitor', [h.get('version'), h.get('command')], {'generics': {}})
            b0 = e.call_fn(B('with_addresses'), [vcv, h.get('protocol'), h.get('addresses')], {'T': 'v2::model::Addresses'})
            out = chain(b0, [(tb, '&[u8]')])
        else:
            tl = e.call_fn(H('tlvs'), [Ref(Cell(h))], {})
            cell = Cell(tl)
            items = []
            done = False
            for _ in range(max_items + 1):
                it = e.call_fn(nxt, [Ref(cell)], {})
                if it.variant == 'None':
                    done = True
                    break
                if it.fields[0].variant != 'Ok':
                    return ('skip', None)       # not a well-formed section
                items.append(it.fields[0].fields[0])
            if not done:
                return ('skip', None)           # more than max_items items: outside this obligation's bound
            out = chain(e.call_fn(B('new'), [vc, afp], {}), [(ab, '&[u8]')] + [(x, "v2::model::TypeLengthValue<'_>") for x in items])
        return ('built', way, out)
    res = explore(ex, run, base_axioms=ctx.axioms, max_paths=6000)
    recs = []
    n = 0
    for i, (sc, items, out, notes) in enumerate(res):
        pc = [c for _, c in items]
        mk = lambda m: cex1(ctx, m, 'v2_rebuild', 're-encoding the parsed header does not reproduce it', entry='v2rb')
        if out[0] == 'panic':
            recs += rec_fix(solve(ctx, pc, z3.BoolVal(True), 'v2_rebuild#%d:panic' % i, mk), 'v2_rebuild', 'v2', i)
            continue
        o = out[1]
        if o[0] == 'skip':
            continue
        n += 1
        way, built = o[1], o[2]
        if built is None:
            neg = z3.BoolVal(True)      # a write / build failed although the header was accepted (payload <= 65535)
        else:
            v = built.fields[0]
            g = seg_is_slice(v, ctx, 0, 16 + rf.ln) if isinstance(v, Seg) else False
            neg = not_(g)
            neg = z3.BoolVal(neg) if isinstance(neg, bool) else neg
        recs += rec_fix(solve(ctx, pc, neg, 'v2_rebuild:%s#%d' % (way, i), mk), 'v2_rebuild', 'v2', i)
    return recs, n


# ------------------------------------------------------------------ validation of the v2 encoding against the native crate
def predict_line(ctx, p, m):
    """the beginning of the `v2x` line that the *encoding* predicts for path p under model m (verdict, payload,
    decoded fields, flags) - independent of the reference decoder, so that it is meaningful on edited code too"""
    ev = lambda x: x if isinstance(x, int) and not isinstance(x, bool) else m.eval(Z(x), model_completion=True).as_long()
    tf = lambda x: 'true' if x else 'false'
    f = p.note('flags')
    flags = 'inc=%s comp=%s' % (tf(f[1]), tf(f[2])) if f else ''
    if p.kind() == 'Panic':
        return 'Panic'
    if p.kind() == 'Err':
        e = p.err()
        pay = '(%s)' % ','.join(str(ev(x)) for x in e.fields) if e.fields else ''
        return 'Err %s%s %s' % (e.variant, pay, flags)
    h = p.result().fields[0]
    hd = h.get('header').fields[0]
    a = h.get('addresses')
    parts = []
    if a.variant in ('IPv4', 'IPv6'):
        ip = a.fields[0]
        parts = [ev(x) for x in octs_of(ip.get('source_address'))] + [ev(x) for x in octs_of(ip.get('destination_address'))]
        for nm in ('source_port', 'destination_port'):
            v = ev(ip.get(nm))
            parts += [v >> 8, v & 255]
    elif a.variant == 'Unix':
        parts = [ev(x) for x in a.fields[0].get('source').items] + [ev(x) for x in a.fields[0].get('destination').items]
    return 'Ok hdr=%d:%d ver=2 cmd=%d tr=%d fam=%d addr=%s %s' % (ev(hd.start), ev(hd.end) - ev(hd.start), CMDNAME.index(h.get('command').variant), TRNAME.index(h.get('protocol').variant),
                                                                 FAMNAME.index(a.variant), bytes(parts).hex(), flags)


def validate(prog, ctx, paths, native):
    """one witness per path: what the encoding predicts for that input (verdict, payload, decoded fields, header
    slice, flags) must be what the natively compiled crate (dev + release) returns (Serval-style validation of the
    translator and the models; the reference decoder plays no part here)"""
    reqs = []
    for p in paths:
        s = z3.Solver()
        for a in ctx.axioms:
            s.add(a)
        for c in p.pc:
            s.add(c)
        s.push()
        s.add(ctx.L <= 4096)
        if s.check() != z3.sat:
            s.pop()
            s.add(ctx.L <= REPLAY_CAP)
            if s.check() != z3.sat:
                continue
        m = s.model()
        b = model_input(m, ctx)
        reqs.append((p, b, predict_line(ctx, p, m)))
    n = 0
    for prof in ('dev', 'release'):
        lines = native([('v2x', b) for _, b, _ in reqs], prof)
        for (p, b, pred), line in zip(reqs, lines):
            if not line.startswith(pred):
                raise Unsupported('v2 encoding disagrees with the native crate (%s build) on the %d-byte input %s: the encoding predicts `%s`, the real code gives `%s`' % (prof, len(b), b[:40].hex(), pred[:200], line[:200]))
            n += 1
    return n


# ------------------------------------------------------------------ drivers (called through SPECS[...]['modular'])
FUNCTIONS = ['v2::TypeLengthValue::{len, is_empty, to_owned}', '<v2::Header as TryFrom<&[u8]>>::try_from', 'v2::parse_addresses', 'v2::AddressFamily::byte_length', 'impl PartialResult for Result<T, E> / v2::ParseError (is_incomplete, is_complete)',
             'v2::Header::{length, len, is_empty, address_family, address_bytes_end, address_bytes, tlv_bytes, tlvs, as_bytes, to_owned}',
             'v2::TypeLengthValues::{as_bytes, len, is_empty}', '<v2::TypeLengthValues as Iterator>::next', 'v2::Addresses::{address_family, len, is_empty}', 'From<AddressFamily> for u16', 'BitOr impls']
FUNCTIONS_REBUILD = ['v2::Builder::{new, with_addresses, write_payload, write_internal, write_header, build}', 'v2::Writer', 'write_to for [u8], TypeLengthValues, TypeLengthValue, Addresses']
MODELS = ('v2 models (/verif/mirsym/models_v2.py): input bytes as an uninterpreted function with 0..255 range facts added at each read, [u8] PartialEq / starts_with against literals, '
          'from_be_bytes/from_le_bytes, Ipv4Addr::new, Ipv6Addr::from([u8; 16]), [u8; N] IndexMut<RangeFull> + copy_from_slice (length check + element copy), to_vec (content-preserving copy), '
          'Cow deref/as_ref, Index<Range*> for [u8] (range panics), Option::unwrap_or(_default), cmp::min; builder side as in models_b.py')
BOUND = 'v2 input S[0, L) with 0 <= L <= isize::MAX symbolic (every input length a Rust slice can have, every declared length 0..65535; no buffer-size bound); bytes beyond the fixed offsets are an uninterpreted function'


def run_v2(prog, clauses, label, max_items=2):
    """clauses: subset of {'accept','blame','counts','flags','views','prefix','trailer','completion','tlv_step','rebuild'}"""
    from natrun import native
    t0 = time.time()
    ctx = V2Input()
    c0 = STATS['checks']
    paths, _ = explore_v2(prog, ctx, views=True)
    nval = validate(prog, ctx, paths, native)
    recs = []
    npaths = len(paths)
    ref_clauses = set(clauses) & {'accept', 'blame', 'counts', 'flags'}
    if ref_clauses:
        recs += ob_ref(prog, ctx, paths, ref_clauses)
    else:
        recs += [r for r in ob_ref(prog, ctx, [p for p in paths if p.kind() == 'Panic'], set())]
    if 'views' in clauses:
        recs += ob_views(prog, ctx, paths)
    rel = set(clauses) & {'prefix', 'trailer', 'completion'}
    if rel:
        rr, n2 = ob_rel(prog, ctx, paths, rel)
        recs += rr
    if 'tlv_step' in clauses:
        rr, n3 = ob_tlv_step(prog)
        recs += rr
        npaths += n3
    if 'rebuild' in clauses:
        rr, n4 = ob_rebuild(prog, max_items=max_items)
        recs += rr
        npaths += n4
    for r in recs:
        r['label'] = label + ':' + r['label']
        if r['status'] == 'sat' and r.get('cex') is None and not r.get('detail'):
            r['detail'] = 'only reproducible with an input longer than %d bytes: not replayed' % REPLAY_CAP
    print('[M] v2 half (%s): %d paths, %d native validations, %d obligations, %d feasibility queries, %.0fs' % (
        ','.join(sorted(clauses)), npaths, nval, len(recs), STATS['checks'] - c0, time.time() - t0), flush=True)
    return npaths, nval, recs
