import sys, time, os
sys.path.insert(0, os.path.dirname(os.path.abspath(__file__)))
import z3
from core import *
import models, v1sum
from collections import Counter
lmax=int(os.environ.get('LMAX','40')); kind=sys.argv[1] if len(sys.argv)>1 else 'str'
prog=v1sum.program(refresh=False)
ctx=models.InputCtx(lmax)
t0=time.time()
import os as _o
if _o.environ.get("NOUTF8"): v1sum.runner.__defaults__=(False,)
paths=v1sum.summarize(prog,kind,ctx)
print(len(paths),'paths in %.1fs'%(time.time()-t0), STATS)
cnt=Counter(p.label() for p in paths)
for k,v in sorted(cnt.items()): print('  %4d %s'%(v,k))
t0=time.time()
p2=v1sum.summarize(prog,kind,models.InputCtx(lmax,suffix='_b'),scripts=[p.script for p in paths])
print('replay %.1fs'%(time.time()-t0))
