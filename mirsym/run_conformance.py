#!/usr/bin/env python3-vt
"""Conformance of Engine M's std models with the real std: every function of mirsym/conformance/src/lib.rs is
executed symbolically (all inputs of at most LMAX bytes), one witness input is taken per feasible path, and the
outcome the models predict is compared with what the natively compiled function returns on that input.
Usage: run_conformance.py [LMAX=5] [name-filter]      exit 0 iff every executed function agrees on every path;
functions that need an unmodelled std item are listed as `unsupported` (they would make a check inconclusive)."""
import hashlib, os, re, subprocess, sys, time
HERE = os.path.dirname(os.path.abspath(__file__))
sys.path.insert(0, HERE)
import z3
from core import *
import models, models_it, models_more, models_v2, models_b, v1sum

CONF = os.path.join(HERE, 'conformance')
TARGET = os.path.join(os.path.dirname(HERE), '.build', 'conformance')
lmax = int(sys.argv[1]) if len(sys.argv) > 1 else 5
flt = sys.argv[2] if len(sys.argv) > 2 else ''
env = dict(os.environ, CARGO_NET_OFFLINE='true')
subprocess.run(['cargo', 'build', '--offline', '--manifest-path', CONF + '/Cargo.toml', '--target-dir', TARGET], env=env, check=True, capture_output=True)
subprocess.run(['cargo', '+nightly', 'clean', '--offline', '-p', 'mirsym-conformance', '--manifest-path', CONF + '/Cargo.toml', '--target-dir', TARGET + '-mir'], env=env, capture_output=True)
p = subprocess.run(['cargo', '+nightly', 'rustc', '--offline', '--lib', '--manifest-path', CONF + '/Cargo.toml', '--target-dir', TARGET + '-mir', '--',
                    '-Zunpretty=mir', '-Ztrim-diagnostic-paths=no', '-C', 'debug-assertions=off', '-C', 'overflow-checks=on'], env=env, capture_output=True, text=True)
assert p.returncode == 0, p.stderr[-2000:]
prog = Program(p.stdout, CONF)
v1sum._prog = prog
names = sorted(n for n in prog.fns if re.match(r'^[sbu]_\w+$', n) and flt in n)


def render(v, m, ctx):
    v = deref(v) if isinstance(v, Ref) else v
    if isinstance(v, bool):
        return 'true' if v else 'false'
    if isinstance(v, int):
        return str(v)
    if isinstance(v, Enum):
        if v.variant in ('None',):
            return 'None'
        if v.variant == 'Some':
            return 'Some(%s)' % render(v.fields[0], m, ctx)
        return '%s(%s)' % (v.variant, ','.join(render(x, m, ctx) for x in v.fields))
    if isinstance(v, Tuple):
        return '(%s)' % ','.join(render(x, m, ctx) for x in v.items)
    if isinstance(v, Str):
        st = m.eval(Z(v.start), model_completion=True).as_long()
        en = m.eval(Z(v.end), model_completion=True).as_long()
        if en == st:
            return '0'
        if v.buf is not ctx.buf:
            return 'lit:%d' % (en - st)
        return '%d:%d' % (st, en - st)
    if z3.is_bool(v):
        return 'true' if z3.is_true(m.eval(v, model_completion=True)) else 'false'
    return str(m.eval(v, model_completion=True).as_long())


bad = 0
unsup = []
total = 0
for name in names:
    is_str = name.startswith('s_')
    ctx = models.InputCtx(lmax)
    ex = v1sum.new_exec(prog, [ctx], lmax)
    ex.hooks = [models_more.hook, models_it.hook, models_v2.hook, models_b.hook]
    ex.suffix = ''
    v1sum.prime(ctx)

    def run(e):
        if is_str:
            e.assume(ctx.valid_utf8_prefix(ctx.L), 'd')
        return e.call_fn(name, [ctx.input_str(is_str)], {})
    t0 = time.time()
    try:
        res = explore(ex, run, base_axioms=ctx.axioms)
    except Unsupported as e:
        unsup.append((name, str(e)[:150]))
        continue
    reqs = []
    for sc, items, out, notes in res:
        s = z3.Solver()
        for a in ctx.axioms:
            s.add(a)
        for _, c in items:
            s.add(c)
        # several witnesses per path: both polarities of a symbolic boolean outcome, then distinct inputs
        extra = []
        if out[0] != 'panic' and not isinstance(out[1], (bool, int)) and not isinstance(out[1], (Enum, Tuple, Str)) and z3.is_bool(out[1]):
            extra = [out[1], z3.Not(out[1])]
        got = 0
        for cond in extra + [None, None, None]:
            s.push()
            if cond is not None:
                s.add(cond)
            if s.check() == z3.sat:
                m = s.model()
                inp = v1sum.model_bytes(m, ctx)
                want = 'Panic' if out[0] == 'panic' else render(out[1], m, ctx)
                reqs.append((inp, want))
                got += 1
                s.pop()
                s.add(z3.Or([ctx.L != len(inp)] + [ctx.S(j) != inp[j] for j in range(len(inp))]))
            else:
                s.pop()
    pr = subprocess.run([os.path.join(TARGET, 'debug', 'conf')], input=''.join('%s %s\n' % (name, i.hex()) for i, _ in reqs).encode(), capture_output=True)
    lines = pr.stdout.decode().split('\n')
    nbad = 0
    for (inp, want), got in zip(reqs, lines):
        total += 1
        if want != got:
            nbad += 1
            if nbad <= 3:
                print('  MISMATCH %s on %r: models predict %s, native gives %s' % (name, inp, want, got))
    bad += nbad
    print('%-22s %3d paths  %s  %.1fs' % (name, len(reqs), 'ok' if not nbad else '%d MISMATCHES' % nbad, time.time() - t0), flush=True)
for n, e in unsup:
    print('unsupported %-22s %s' % (n, e))
print('%d functions, %d path witnesses compared, %d mismatches, %d functions unsupported' % (len(names), total, bad, len(unsup)))
sys.exit(1 if bad else 0)
