#!/usr/bin/env python3-vt
"""mreplay_cli.py <counterexample.json>: re-runs a stored Engine M counterexample on the natively compiled crate
(dev + release build of /repo's current tree). Prints `REPRODUCES <note>` / `DOES-NOT-REPRODUCE <note>`."""
import json, os, sys
HERE = os.path.dirname(os.path.abspath(__file__))
sys.path.insert(0, HERE)
import props_v1
from natrun import native, build_replay

build_replay()
cex = json.load(open(sys.argv[1]))
ok, note = props_v1.replay_cex(cex, native)
print(('REPRODUCES ' if ok else 'DOES-NOT-REPRODUCE ') + str(note)[:2000])
sys.exit(0)
