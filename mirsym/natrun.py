"""native replay binary driver"""
import os, subprocess
from core import Unsupported

VERIF = os.path.dirname(os.path.dirname(os.path.abspath(__file__)))
REPLAY_BIN = {'dev': os.path.join(VERIF, '.build', 'replay', 'debug', 'ppp-verif-replay'),
              'release': os.path.join(VERIF, '.build', 'replay', 'release', 'ppp-verif-replay')}


def build_replay():
    env = dict(os.environ, CARGO_NET_OFFLINE='true', CARGO_TARGET_DIR=os.path.join(VERIF, '.build', 'replay'))
    env.pop('RUSTFLAGS', None)
    for extra in ([], ['--release']):
        p = subprocess.run(['cargo', 'build', '--offline'] + extra, cwd=os.path.join(VERIF, 'replay'), env=env,
                           stdout=subprocess.PIPE, stderr=subprocess.STDOUT, text=True)
        if p.returncode != 0:
            raise Unsupported('native replay binary does not build against the current /repo tree: ' + p.stdout[-1500:])


def native(requests, profile='dev'):
    """requests: [(entry, bytes)] -> [line]"""
    inp = ''.join('%s %s\n' % (e, b.hex()) for e, b in requests)
    p = subprocess.run([REPLAY_BIN[profile]], input=inp.encode(), stdout=subprocess.PIPE, stderr=subprocess.PIPE, timeout=600)
    lines = p.stdout.decode('utf-8', 'replace').split('\n')
    if lines and lines[-1] == '':
        lines.pop()
    if len(lines) != len(requests):
        raise Unsupported('replay binary answered %d of %d requests' % (len(lines), len(requests)))
    return lines


