"""mirsym core: symbolic executor over rustc's `-Zunpretty=mir` text with z3.

Path enumeration by replay-based forking: a path is a list of branch decisions
(its *script*); a finished path can be re-executed from its script alone with no
solver call, which is how summaries are rebuilt in worker processes and how a second
instance of a summary (over another input) is obtained.

Values: Python int/bool when concrete, z3 Int/Bool terms when symbolic. Integers are
mathematical Ints with explicit ranges; MIR built with overflow-checks=on contains
explicit `*WithOverflow` + `assert`, so wrap-around is an explicit Panic path.
"""
import re, os, glob, time
import z3
from mirparse import parse_mir, split_top

STATS = {'checks': 0, 't': 0.0}


class Panic(Exception):
    def __init__(self, msg):
        self.msg = msg


class Infeasible(Exception):
    pass


class Unsupported(Exception):
    pass


# ---------------------------------------------------------------- term helpers (light-weight folding)
def is_c(x):
    return isinstance(x, (int, bool))


def Z(e):
    if isinstance(e, bool):
        return z3.BoolVal(e)
    if isinstance(e, int):
        return z3.IntVal(e)
    return e


def norm(e):
    """turn z3 literal values back into Python values"""
    if is_c(e):
        return e
    if z3.is_int_value(e):
        return e.as_long()
    if z3.is_true(e):
        return True
    if z3.is_false(e):
        return False
    return e


def add(a, b):
    if is_c(a) and is_c(b):
        return a + b
    if is_c(b) and b == 0:
        return a
    if is_c(a) and a == 0:
        return b
    # fold (x + c1) + c2
    if is_c(b) and not is_c(a) and z3.is_add(a) and a.num_args() == 2 and z3.is_int_value(a.arg(1)):
        return add(a.arg(0), a.arg(1).as_long() + b)
    return Z(a) + Z(b)


def sub(a, b):
    if is_c(a) and is_c(b):
        return a - b
    if is_c(b):
        return add(a, -b)
    if not is_c(a) and not is_c(b) and a.eq(b):
        return 0
    return Z(a) - Z(b)


def mul(a, b):
    if is_c(a) and is_c(b):
        return a * b
    return Z(a) * Z(b)


def eq(a, b):
    if is_c(a) and is_c(b):
        return a == b
    if not is_c(a) and not is_c(b) and a.eq(b):
        return True
    return Z(a) == Z(b)


def ne(a, b):
    return not_(eq(a, b))


def lt(a, b):
    if is_c(a) and is_c(b):
        return a < b
    return Z(a) < Z(b)


def le(a, b):
    if is_c(a) and is_c(b):
        return a <= b
    if not is_c(a) and not is_c(b) and a.eq(b):
        return True
    return Z(a) <= Z(b)


def gt(a, b):
    return lt(b, a)


def ge(a, b):
    return le(b, a)


def not_(a):
    if isinstance(a, bool):
        return not a
    if z3.is_not(a):
        return a.arg(0)
    return z3.Not(a)


def and_(*xs):
    out = []
    for x in xs:
        if isinstance(x, bool):
            if not x:
                return False
            continue
        out.append(x)
    if not out:
        return True
    if len(out) == 1:
        return out[0]
    return z3.And(out)


def or_(*xs):
    out = []
    for x in xs:
        if isinstance(x, bool):
            if x:
                return True
            continue
        out.append(x)
    if not out:
        return False
    if len(out) == 1:
        return out[0]
    return z3.Or(out)


def implies(a, b):
    return or_(not_(a), b)


def ite(c, a, b):
    if isinstance(c, bool):
        return a if c else b
    if is_c(a) and is_c(b) and a == b and type(a) == type(b):
        return a
    return z3.If(c, Z(a), Z(b))


INT_BITS = {'u8': 8, 'u16': 16, 'u32': 32, 'u64': 64, 'usize': 64, 'u128': 128,
            'i8': 8, 'i16': 16, 'i32': 32, 'i64': 64, 'isize': 64, 'i128': 128, 'char': 32}


def int_range(ty):
    bits = INT_BITS.get(ty, 64)
    if ty and ty.startswith('i'):
        return -2 ** (bits - 1), 2 ** (bits - 1) - 1
    if ty == 'char':
        return 0, 0x10FFFF
    return 0, 2 ** bits - 1


# ---------------------------------------------------------------- values
class Buf:
    """byte buffer: concrete (bytes) or symbolic (z3 function Int->Int)."""

    def __init__(self, name, data=None, fn=None, length=None):
        self.name = name
        self.data = data
        self.fn = fn
        self.length = length

    def at(self, i):
        if self.data is not None:
            if isinstance(i, int):
                return self.data[i] if 0 <= i < len(self.data) else 0
            e = z3.IntVal(0)
            for k in range(len(self.data) - 1, -1, -1):
                e = z3.If(i == k, z3.IntVal(self.data[k]), e)
            return e
        return self.fn(Z(i))


class Str:
    """&str or &[u8] slice of a Buf: [start, end)"""

    def __init__(self, buf, start, end, is_str=True):
        self.buf = buf
        self.start = start
        self.end = end
        self.is_str = is_str

    def len(self):
        return sub(self.end, self.start)

    def concrete(self):
        return self.buf.data is not None and isinstance(self.start, int) and isinstance(self.end, int)

    def bytes(self):
        return self.buf.data[self.start:self.end]

    def __repr__(self):
        if self.concrete():
            return 'Str(%r)' % (self.bytes(),)
        return 'Str(%s,%s,%s)' % (self.buf.name, self.start, self.end)


class Enum:
    def __init__(self, ty, variant, fields=()):
        self.ty = ty
        self.variant = variant
        self.fields = list(fields)

    def __repr__(self):
        return '%s::%s%s' % (self.ty.split('::')[-1], self.variant, self.fields if self.fields else '')


class Struct:
    def __init__(self, ty, fields):
        self.ty = ty
        self.fields = {k: v for k, v in fields.items() if isinstance(k, int)}
        self.names = {k: i for i, k in enumerate([k for k in fields if isinstance(k, str)])}

    def get(self, name):
        return self.fields[self.names[name]]

    def __repr__(self):
        inv = {i: n for n, i in self.names.items()}
        return '%s{%s}' % (self.ty.split('::')[-1], ', '.join('%s: %r' % (inv.get(i, i), v) for i, v in self.fields.items()))


class Tuple:
    def __init__(self, items):
        self.items = list(items)

    def __repr__(self):
        return 'T%r' % (self.items,)


class Cell:
    def __init__(self, v=None):
        self.v = v


class Ref:
    """reference to a place: cell + projection path"""

    def __init__(self, cell, path=()):
        self.cell = cell
        self.path = tuple(path)

    def __repr__(self):
        return 'Ref(%r)' % (self.path,)


class Closure:
    def __init__(self, fnname, captures=None):
        self.fnname = fnname
        self.captures = captures


class FnItem:
    def __init__(self, name):
        self.name = name

    def __repr__(self):
        return 'FnItem(%s)' % self.name


class Opaque:
    def __init__(self, kind, **kw):
        self.kind = kind
        self.__dict__.update(kw)

    def __repr__(self):
        return 'Opaque(%s)' % self.kind


def deref(v):
    while isinstance(v, Ref):
        v = proj_get(v.cell.v, v.path)
    return v


def proj_get(v, path):
    for step in path:
        k, a = step[0], step[1]
        if k == 'sub':
            v = deref(v) if isinstance(v, Ref) else v
            mode, b = step[2]
            if isinstance(v, Str):
                v = Str(v.buf, add(v.start, a), (sub(v.end, b) if mode == 'end' else add(v.start, b)), v.is_str)
            elif getattr(v, 'items', None) is not None:
                items = v.items
                v = ArrSlice(items[a:(len(items) - b if mode == 'end' else b)])
            else:
                raise Unsupported('subslice of %r' % (v,))
            continue
        if k == 'f':
            if isinstance(v, Tuple):
                v = v.items[a]
            elif isinstance(v, (Struct, Enum)):
                v = v.fields[a]
            elif isinstance(v, Closure):
                v = v.captures[a]
            else:
                raise Unsupported('field %s of %r' % (a, v))
        elif k == 'v':
            if not isinstance(v, Enum):
                raise Unsupported('downcast of %r' % (v,))
            if v.variant != a:
                raise Unsupported('downcast %r as %s' % (v, a))
        elif k == 'i':
            v = index_val(v, a)
        elif k == 'ie':
            v = deref(v) if isinstance(v, Ref) else v
            items = getattr(v, 'items', None)
            if isinstance(v, Str):
                v = v.buf.at(sub(v.end, a))
            elif items is None:
                raise Unsupported('index from the end of %r' % (v,))
            else:
                v = items[len(items) - a]
        elif k == 'd':
            v = deref(v)
    return v


def index_val(v, i):
    if isinstance(v, Str):
        return v.buf.at(add(v.start, i))
    if isinstance(v, Opaque) and v.kind == 'bytearray':
        return v.buf.at(i)
    if isinstance(v, Tuple):
        if isinstance(i, int):
            return v.items[i]
        e = Z(v.items[-1])
        for k in range(len(v.items) - 2, -1, -1):
            e = z3.If(i == k, Z(v.items[k]), e)
        return e
    if hasattr(v, 'index_val'):
        return v.index_val(i)
    raise Unsupported('index %r' % (v,))


# ---------------------------------------------------------------- crate metadata from the source
ENUM_VARIANTS = {
    'std::option::Option': ['None', 'Some'], 'Option': ['None', 'Some'],
    'std::result::Result': ['Ok', 'Err'], 'Result': ['Ok', 'Err'],
    'std::ops::ControlFlow': ['Continue', 'Break'],
    'std::borrow::Cow': ['Borrowed', 'Owned'],
    'std::net::SocketAddr': ['V4', 'V6'],
    'std::net::IpAddr': ['V4', 'V6'],
    'std::num::IntErrorKind': ['Empty', 'InvalidDigit', 'PosOverflow', 'NegOverflow', 'Zero'],
}


def load_crate_enums(root):
    """{module-qualified enum name: {variant: discriminant}} read from the source"""
    out = {}
    for p in glob.glob(root + '/src/**/*.rs', recursive=True):
        rel = os.path.relpath(p, root + '/src')
        mod = rel[:-3].replace('/', '::')
        if mod.endswith('::mod'):
            mod = mod[:-5]
        if mod == 'lib':
            mod = ''
        txt = open(p).read()
        for m in re.finditer(r'pub enum (\w+)(<[^>]*>)?\s*\{(.*?)\n\}', txt, re.S):
            body = re.sub(r'//[^\n]*', '', m.group(3))
            body = re.sub(r'#\[[^\]]*\]', '', body)
            body = re.sub(r'#\[error\((?:[^()]|\([^()]*\))*\)\]', '', body)
            vals = {}
            cur = -1
            depth = 0
            item = ''
            items = []
            q = False
            for ch in body:
                if ch == '"':
                    q = not q
                if not q:
                    if ch in '([{':
                        depth += 1
                    if ch in ')]}':
                        depth -= 1
                if ch == ',' and depth == 0 and not q:
                    items.append(item)
                    item = ''
                else:
                    item += ch
            if item.strip():
                items.append(item)
            for it in items:
                it = it.strip()
                if not it:
                    continue
                mm = re.match(r'^(\w+)\s*(\(.*\)|\{.*\})?\s*(=\s*(\S+))?$', it, re.S)
                if not mm:
                    continue
                cur = int(mm.group(4), 0) if mm.group(4) else cur + 1
                vals[mm.group(1)] = cur
            name = (mod + '::' if mod else '') + m.group(1)
            out[name] = vals
    return out


def strip_generics(t):
    out = []
    i = 0
    n = len(t)
    while i < n:
        if t.startswith('::<', i) and not t.startswith('::<impl ', i):
            j = i + 2
            d = 0
            while True:
                if t[j] == '<':
                    d += 1
                elif t[j] == '>' and t[j - 1] != '-':
                    d -= 1
                    if d == 0:
                        break
                j += 1
            i = j + 1
            continue
        if t[i] == '<' and i > 0 and (t[i - 1].isalnum() or t[i - 1] == '_'):
            j = i
            d = 0
            while True:
                if t[j] == '<':
                    d += 1
                elif t[j] == '>' and t[j - 1] != '-':
                    d -= 1
                    if d == 0:
                        break
                j += 1
            i = j + 1
            continue
        out.append(t[i])
        i += 1
    return ''.join(out)


def norm_ty(t):
    t = re.sub(r"'\w+\s*,?\s*", '', t).replace('<>', '')
    t = re.sub(r'\s+', '', t)
    return t


def matching(s, i):
    depth = 0
    for j in range(i, len(s)):
        if s[j] in '([{':
            depth += 1
        elif s[j] in ')]}':
            depth -= 1
            if depth == 0:
                return j
    return -1


def matching_back(s, k):
    depth = 0
    for j in range(k, -1, -1):
        if s[j] == ')':
            depth += 1
        elif s[j] == '(':
            depth -= 1
            if depth == 0:
                return j
    raise ValueError(s)


def top_split_field(body):
    depth = 0
    for j, c in enumerate(body):
        if c in '([{<':
            if c == '<' and body[j - 1:j] in ('-', '='):
                continue
            depth += 1
        elif c in ')]}>':
            if c == '>' and body[j - 1:j] in ('-', '='):
                continue
            depth -= 1
        elif depth == 0:
            if body.startswith(' as ', j):
                return ('as', body[:j], body[j + 4:])
            m = re.match(r'^\.(\d+): ', body[j:])
            if m:
                return ('field', body[:j], m.group(1))
    raise Unsupported('place body ' + body)


def unescape(s):
    out = bytearray()
    i = 0
    while i < len(s):
        c = s[i]
        if c == '\\':
            n = s[i + 1]
            if n == 'n':
                out.append(10); i += 2
            elif n == 'r':
                out.append(13); i += 2
            elif n == 't':
                out.append(9); i += 2
            elif n == '0':
                out.append(0); i += 2
            elif n == '\\':
                out.append(92); i += 2
            elif n == '"':
                out.append(34); i += 2
            elif n == "'":
                out.append(39); i += 2
            elif n == 'x':
                out.append(int(s[i + 2:i + 4], 16)); i += 4
            elif n == 'u':
                j = s.index('}', i)
                out.extend(chr(int(s[i + 3:j], 16)).encode()); i = j + 1
            else:
                raise Unsupported('escape ' + s)
        else:
            out.extend(c.encode())
            i += 1
    return bytes(out)


BINOPS = {'Eq', 'Ne', 'Lt', 'Le', 'Gt', 'Ge', 'Add', 'Sub', 'Mul', 'AddWithOverflow', 'SubWithOverflow',
          'MulWithOverflow', 'BitAnd', 'BitOr', 'BitXor', 'Shl', 'Shr', 'Offset', 'Div', 'Rem', 'Cmp',
          'AddUnchecked', 'SubUnchecked', 'ShrUnchecked', 'ShlUnchecked'}
UNOPS = {'Not', 'Neg'}


class Program:
    """parsed MIR + crate metadata (shared by all executions)"""

    def __init__(self, mir_text, src_root):
        self.fns, self.consts = parse_mir(mir_text)
        self.src_root = src_root
        self.enums = load_crate_enums(src_root)
        self._generic_cache = {}
        self._src_cache = {}
        self.impl_index = self._build_impl_index()

    def src(self, rel):
        if rel not in self._src_cache:
            self._src_cache[rel] = open(os.path.join(self.src_root, rel)).read()
        return self._src_cache[rel]

    def _build_impl_index(self):
        """[(trait or None, self type, method, mir fn name)] from the impl spans' source lines"""
        idx = []
        for name in self.fns:
            m = re.search(r'<impl at (src/[^:]+):(\d+):\d+: \d+:\d+>::(\w+)$', name)
            if not m:
                continue
            lines = self.src(m.group(1)).split('\n')
            line = lines[int(m.group(2)) - 1]
            # macro-generated impls share the macro's span: resolved by receiver type instead
            mm = re.match(r'\s*impl(<.*?>)?\s+(.*?)\s+for\s+(.*?)\s*(\{|where)', line)
            if mm:
                idx.append((norm_ty(mm.group(2)), norm_ty(mm.group(3)), m.group(3), name))
            else:
                mm = re.match(r'\s*impl(<.*?>)?\s+(.*?)\s*\{', line)
                if mm:
                    idx.append((None, norm_ty(mm.group(2)), m.group(3), name))
        return idx

    def generic_params(self, fname):
        """names of the generic parameters of a crate fn, read from its signature in the source"""
        if fname in self._generic_cache:
            return self._generic_cache[fname]
        short = fname.split('::')[-1]
        res = []
        m = re.search(r'<impl at (src/[^:]+):(\d+):', fname)
        files = [m.group(1)] if m else [os.path.relpath(p, self.src_root) for p in glob.glob(self.src_root + '/src/**/*.rs', recursive=True)]
        for rel in files:
            mm = re.search(r'fn ' + re.escape(short) + r'\s*<([^(]*)>\s*\(', self.src(rel))
            if mm:
                res = [g.split(':')[0].strip() for g in split_top(mm.group(1))]
                res = [g[6:].strip() if g.startswith('const ') else g for g in res if not g.startswith("'")]
                break
        self._generic_cache[fname] = res
        return res

    def variant_index(self, e):
        vs = ENUM_VARIANTS.get(e.ty)
        if vs:
            return vs.index(e.variant)
        ce = self.enums.get(e.ty)
        if ce is None:
            cands = [k for k in self.enums if k.split('::')[-1] == e.ty.split('::')[-1]]
            if len(cands) == 1:
                ce = self.enums[cands[0]]
            else:
                cands = [k for k in cands if e.ty.endswith(k) or k.endswith(e.ty)]
                if len(cands) == 1:
                    ce = self.enums[cands[0]]
        if ce and e.variant in ce:
            return ce[e.variant]
        raise Unsupported('variant index of %r (%s)' % (e, e.ty))


class Exec:
    def __init__(self, prog, dispatch):
        self.prog = prog
        self.fns = prog.fns
        self.consts = prog.consts
        self.dispatch = dispatch
        self.fresh_n = 0
        self.solver = None
        self.replay_only = False
        self.notes = []          # per-path notes from models (e.g. address parse call sites)
        self.step_bound = 20000
        self.total_steps = 0

    # ---- path management (replay-based forking)
    def begin(self, script, base_axioms=(), replay_only=False):
        self.script = list(script)
        self.pos = 0
        self.pending = []
        self.pc = []
        self.items = []          # ordered [('d', definition) | ('c', branch condition)]
        self.fresh_n = 0
        self.notes = []
        self.total_steps = 0
        self.replay_only = replay_only
        if not replay_only:
            if self.solver is None:
                self.solver = z3.Solver()
                self.solver.set('timeout', 300000)
                self.solver.set('arith.solver', 2)
                self._base = 0
            # base axioms live at level 0, the path at level 1
            while self.solver.num_scopes() > 0:
                self.solver.pop()
            if self._base != (id(base_axioms), len(base_axioms)):
                self.solver.reset()
                for a in base_axioms:
                    self.solver.add(a)
                self._base = (id(base_axioms), len(base_axioms))
            self.solver.push()

    def assume(self, c, kind='d'):
        """kind 'd': a total, uniquely satisfiable definition of fresh variables (or an axiom / precondition):
        never negated. kind 'c': a branch condition."""
        if isinstance(c, bool):
            if not c:
                raise Infeasible()
            return
        self.pc.append(c)
        self.items.append((kind, c))
        if not self.replay_only:
            self.solver.add(c)

    def feasible(self, c):
        t0 = time.time()
        STATS['checks'] += 1
        self.solver.push()
        self.solver.add(c)
        r = self.solver.check()
        self.solver.pop()
        STATS['t'] += time.time() - t0
        if r == z3.unknown:
            raise Unsupported('solver unknown on a branch feasibility query')
        return r == z3.sat

    def branch(self, cond):
        """decide a symbolic condition on this path (forking via replay)."""
        cond = norm(cond)
        if isinstance(cond, bool):
            return cond
        if self.pos < len(self.script):
            d = self.script[self.pos]
        else:
            if self.replay_only:
                raise Unsupported('replay ran past the end of its script')
            t = self.feasible(cond)
            f = self.feasible(z3.Not(cond))
            if not t and not f:
                raise Infeasible()
            if t and f:
                self.pending.append(self.script + [False])
                d = True
            else:
                d = t
            self.script = self.script + [d]
        self.pos += 1
        self.assume(cond if d else not_(cond), 'c')
        return d

    def choose(self, n):
        """concrete n-way choice (all alternatives explored)"""
        if self.pos < len(self.script):
            d = self.script[self.pos]
        else:
            if self.replay_only:
                raise Unsupported('replay ran past the end of its script')
            for k in range(n - 1, 0, -1):
                self.pending.append(self.script + [k])
            d = 0
            self.script = self.script + [d]
        self.pos += 1
        return d

    def fresh(self, name, sort='int'):
        # the name is keyed by the decisions taken so far: equal names in two paths imply the same
        # execution prefix and therefore the same definition (paths can be combined in one query)
        self.fresh_n += 1
        import zlib
        key = zlib.crc32(repr(self.script[:self.pos]).encode()) & 0xffffffff
        n = '%s!%d_%08x%s' % (name, self.fresh_n, key, getattr(self, 'suffix', ''))
        return z3.Int(n) if sort == 'int' else z3.Bool(n)

    # ---- constants
    def const(self, text, frame):
        text = text.strip()
        m = re.match(r'^(-?\d+)(_\w+)?$', text)
        if m:
            return int(m.group(1))      # `3_usize`, or a bare const-generic argument `3`
        if text in ('true', 'false'):
            return text == 'true'
        if text == '()':
            return Tuple([])
        if text == 'std::ops::RangeFull':
            return Struct('std::ops::RangeFull', {})
        if text.startswith('"'):
            d = unescape(text[1:-1])
            return Str(Buf('lit', data=d), 0, len(d))
        if text.startswith('b"'):
            d = unescape(text[2:-1])
            return Ref(Cell(Opaque('bytearray', buf=Buf('blit', data=d), n=len(d))))
        if text.startswith("'"):
            return ord(unescape(text[1:-1]).decode()[0])
        if text.startswith('ZeroSized: '):
            t = text[len('ZeroSized: '):]
            m = re.match(r'^\{closure@(.*)\}$', t)
            if m:
                return Closure(self.closure_by_span(m.group(1)))
            return FnItem(t)
        mm = re.match(r'^(?:core|std)::num::<impl (\w+)>::(MAX|MIN|BITS)$', text)
        if mm:
            lo, hi = int_range(mm.group(1))
            if mm.group(2) == 'BITS':
                return INT_BITS[mm.group(1)]
            return hi if mm.group(2) == 'MAX' else lo
        if text in self.consts:
            return self.eval_const(text)
        sg = strip_generics(text)
        if sg in self.consts:
            return self.eval_const(sg)
        # a promoted of a trait-impl fn is referenced by its trait path but defined under the impl's span name:
        # promoteds always belong to the function being executed
        mp = re.search(r'::promoted\[(\d+)\]$', text)
        if mp and frame is not None:
            own = '%s::promoted[%s]' % (frame['fn'].name, mp.group(1))
            if own in self.consts:
                return self.eval_const(own)
        m = re.match(r'^(.*)::(\w+)$', text)
        if m and (m.group(1) in self.prog.enums or strip_generics(m.group(1)) in ENUM_VARIANTS):
            return Enum(strip_generics(m.group(1)), m.group(2), [])
        raise Unsupported('const ' + text)

    def eval_const(self, name):
        k = self.consts[name]
        if k[0] == 'lit':
            return self.const(k[1], None)
        return self.call_body(k[1], [], {})

    def closure_by_span(self, span):
        for name, fl in self.fns.items():
            for f in fl:
                if '{closure#' in name and f.args and span in f.types[f.args[0]]:
                    return name
        raise Unsupported('closure ' + span)

    # ---- calls
    def call_fn(self, name, args, generics=None):
        fl = self.fns[name]
        return self.call_body(fl[0], args, generics or {})

    def call_body(self, f, args, generics):
        frame = {'fn': f, 'locals': {}, 'generics': generics}
        for i in f.types:
            frame['locals'][i] = Cell(None)
        for i, a in zip(f.args, args):
            frame['locals'][i].v = a
        bb = 0
        while True:
            self.total_steps += 1
            if self.total_steps > self.step_bound:
                raise Unsupported('step bound exceeded in ' + f.name + ' (possible unbounded loop)')
            stmts, term = f.blocks[bb]
            for s in stmts:
                self.stmt(s, frame)
            nxt = self.term(term, frame)
            if nxt is None:
                return frame['locals'][0].v
            bb = nxt

    def stmt(self, s, frame):
        if s.startswith(('StorageLive', 'StorageDead', 'nop', 'FakeRead', 'PlaceMention', 'Retag', 'Coverage',
                         'ConstEvalCounter', 'AscribeUserType', '//')):
            return
        m = re.match(r'^discriminant\((.*)\) = (\d+);$', s)
        if m:
            raise Unsupported(s)
        if not s.endswith(';'):
            raise Unsupported('statement ' + s)
        lhs, rhs = s[:-1].split(' = ', 1)
        v = self.rvalue(rhs, frame)
        self.store(lhs, v, frame)

    # ---- places
    def place_ref(self, p, frame):
        p = p.strip()
        m = re.match(r'^_(\d+)$', p)
        if m:
            return frame['locals'][int(m.group(1))], ()
        if p.startswith('(*') and p.endswith(')') and matching(p, 0) == len(p) - 1:
            inner = self.load(p[2:-1], frame)
            if isinstance(inner, Ref):
                return inner.cell, inner.path
            # a fat pointer / boxed value held by value: dereferencing yields the value itself
            return Cell(inner), ()
        if p.startswith('(') and matching(p, 0) == len(p) - 1:
            body = p[1:-1]
            parts = top_split_field(body)
            if parts[0] == 'field':
                c, path = self.place_ref(parts[1], frame)
                return c, path + (('f', int(parts[2])),)
            if parts[0] == 'as':
                c, path = self.place_ref(parts[1], frame)
                return c, path + (('v', parts[2]),)
        m = re.match(r'^(.*)\[_(\d+)\]$', p)
        if m:
            c, path = self.place_ref(m.group(1), frame)
            return c, path + (('i', frame['locals'][int(m.group(2))].v),)
        m = re.match(r'^(.*)\[(\d+) of (\d+)\]$', p)
        if m:
            c, path = self.place_ref(m.group(1), frame)
            return c, path + (('i', int(m.group(2))),)
        m = re.match(r'^(.*)\[-(\d+) of (\d+)\]$', p)
        if m:
            # ConstantIndex from the end (slice patterns `[.., x]`)
            c, path = self.place_ref(m.group(1), frame)
            return c, path + (('ie', int(m.group(2))),)
        m = re.match(r'^(.*)\[(\d+):(?:-(\d+))?\]$', p) or re.match(r'^(.*)\[(\d+)\.\.(\d+)\]$', p)
        if m:
            # Subslice (slice patterns `[a, rest @ ..]`, `[a, mid @ .., z]`)
            c, path = self.place_ref(m.group(1), frame)
            if '..' in p[len(m.group(1)):]:
                return c, path + (('sub', int(m.group(2)), ('abs', int(m.group(3)))),)
            return c, path + (('sub', int(m.group(2)), ('end', int(m.group(3) or 0))),)
        raise Unsupported('place ' + p)

    def load(self, p, frame):
        c, path = self.place_ref(p, frame)
        return proj_get(c.v, path)

    def store(self, p, val, frame):
        c, path = self.place_ref(p, frame)
        if not path:
            c.v = val
            return
        v = proj_get(c.v, path[:-1])
        k, a = path[-1]
        if k == 'f':
            if isinstance(v, Tuple):
                v.items[a] = val
            elif isinstance(v, (Struct, Enum)):
                v.fields[a] = val
            else:
                raise Unsupported('store field into %r' % (v,))
        elif k == 'i' and isinstance(v, Tuple) and isinstance(a, int):
            v.items[a] = val
        elif k == 'i' and hasattr(v, 'store_index'):
            v.store_index(a, val)
        else:
            raise Unsupported('store ' + p)

    # ---- operands / rvalues
    def operand(self, o, frame):
        o = o.strip()
        if o.startswith('copy '):
            return self.load(o[5:], frame)
        if o.startswith('move '):
            return self.load(o[5:], frame)
        if o.startswith('no_retag copy '):
            return self.load(o[14:], frame)
        if o.startswith('const '):
            return self.const(subst_generics(o[6:], frame['generics']) if frame else o[6:], frame)
        return FnItem(o)

    def rvalue(self, r, frame):
        r = r.strip()
        if r.startswith(('copy ', 'move ', 'const ', 'no_retag ')):
            m = re.match(r'^(.*) as (.*?) \((\w+)(\(.*\))?\)$', r)
            if m and ' as ' in r and r.endswith(')'):
                v = self.operand(m.group(1), frame)
                return self.cast(v, m.group(2), m.group(3), frame, self.operand_type(m.group(1), frame))
            return self.operand(r, frame)
        if r.startswith('&raw '):
            # `&raw const (fake) (*_n)`: address taken only to read the slice length in a bounds check;
            # other raw borrows are treated like shared borrows of the place (no pointer arithmetic is modelled)
            r = '&' + re.sub(r'^&raw (const|mut) (\(fake\) )?', '', r)
        if r.startswith('&'):
            p = r[1:]
            if p.startswith('mut '):
                p = p[4:]
            if p.startswith('(*') and p.endswith(')') and matching(p, 0) == len(p) - 1:
                inner = self.load(p[2:-1], frame)
                if not isinstance(inner, Ref):
                    return inner      # reborrow of a fat pointer value
            c, path = self.place_ref(p, frame)
            # a borrow of a place whose value is a slice view keeps value semantics
            return Ref(c, path)
        m = re.match(r'^(\w+)\((.*)\)$', r)
        if m and m.group(1) in BINOPS | UNOPS | {'discriminant', 'PtrMetadata', 'Len'}:
            op = m.group(1)
            args = split_top(m.group(2))
            if op == 'discriminant':
                v = self.load(args[0], frame)
                if v is None:
                    # a never-assigned local of a single-variant enum (rustc replaces the value by a constant)
                    mloc = re.match(r'^_(\d+)$', args[0].strip())
                    ty = strip_generics(frame['fn'].types.get(int(mloc.group(1)), '')) if mloc else ''
                    ce = self.prog.enums.get(ty)
                    if ce is not None and len(ce) == 1:
                        return list(ce.values())[0]
                return self.discr(v)
            if op in ('PtrMetadata', 'Len'):
                v = self.operand(args[0], frame) if op == 'PtrMetadata' else self.load(args[0], frame)
                v = deref(v)
                if hasattr(v, 'len'):
                    return v.len()
                if isinstance(v, Tuple):
                    return len(v.items)
                raise Unsupported(r + ' :: ' + repr(v))
            vals = [self.operand(a, frame) for a in args]
            ty = self.operand_type(args[0], frame)
            return self.binop(op, vals, ty)
        if r.startswith('(') and r.endswith(')'):
            return Tuple([self.operand(x, frame) for x in split_top(r[1:-1])])
        m = re.match(r'^\[(.*); (\d+)\]$', r)
        if m and not r.startswith('[closure'):
            v = self.operand(m.group(1), frame)
            return Tuple([v] * int(m.group(2)))
        if r.startswith('[') and r.endswith(']'):
            return Tuple([self.operand(x, frame) for x in split_top(r[1:-1])])
        m = re.match(r'^\{closure@(.*?)\}( \{ (.*) \})?$', r)
        if m:
            caps = []
            if m.group(3):
                for kv in split_top(m.group(3)):
                    caps.append(self.operand(kv.split(': ', 1)[1] if ': ' in kv else kv, frame))
            return Closure(self.closure_by_span(m.group(1)), caps)
        m = re.match(r'^(.*?) \{ (.*) \}$', r)
        if m:
            fields = {}
            for i, kv in enumerate(split_top(m.group(2))):
                k, v = kv.split(': ', 1)
                fields[i] = self.operand(v, frame)
                fields[k] = fields[i]
            head = m.group(1)
            # struct-like enum variant?  Path::Variant { .. }
            return Struct(strip_generics(head), fields)
        m = re.match(r'^(.*)::(\w+)\((.*)\)$', r)
        if m and not r.startswith('<'):
            return Enum(strip_generics(m.group(1)), m.group(2), [self.operand(x, frame) for x in split_top(m.group(3))])
        m = re.match(r'^(.*)::(\w+)$', r)
        if m:
            return Enum(strip_generics(m.group(1)), m.group(2), [])
        raise Unsupported('rvalue ' + r)

    def operand_type(self, o, frame):
        o = o.strip()
        m = re.match(r'^(copy|move) _(\d+)$', o)
        if m:
            return frame['fn'].types.get(int(m.group(2)))
        m = re.match(r'^const -?\d+_(\w+)$', o)
        if m:
            return m.group(1)
        if o.startswith("const '"):
            return 'char'
        m = re.match(r'^const (.*)$', o)
        if m:
            k = self.consts.get(m.group(1)) or self.consts.get(strip_generics(m.group(1)))
            if k:
                return k[2] if k[0] == 'lit' else k[1].types.get(0)
        m = re.match(r'^(copy|move) \((.*): ([^()]*)\)$', o)
        if m:
            return m.group(3)
        return None

    def cast(self, v, ty, kind, frame, src_ty=None):
        if kind == 'IntToInt':
            if isinstance(v, Enum):
                v = self.prog.variant_index(v)
            lo, hi = int_range(ty)
            if isinstance(v, bool):
                return int(v)
            if isinstance(v, int):
                if lo <= v <= hi:
                    return v
                return ((v - lo) % (hi - lo + 1)) + lo
            if z3.is_bool(v):
                return z3.If(v, z3.IntVal(1), z3.IntVal(0))
            slo, shi = int_range(src_ty) if src_ty in INT_BITS else (None, None)
            if slo is not None and slo >= lo and shi <= hi:
                return v       # widening (or same-range) cast
            if slo is not None and slo >= 0 and lo == 0:
                return v % (hi + 1)     # unsigned truncation
            raise Unsupported('narrowing cast %s -> %s' % (src_ty, ty))
        if kind == 'PointerCoercion':
            t = deref(v) if isinstance(v, Ref) else v
            if isinstance(t, Opaque) and t.kind == 'bytearray':
                return Str(t.buf, 0, t.n, is_str=False)
            if isinstance(t, Tuple) and '[' in ty:
                return ArrSlice(t.items)
            return v
        if kind in ('Transmute', 'PtrToPtr'):
            return v
        raise Unsupported('cast ' + kind)

    def discr(self, v):
        v = deref(v)
        if isinstance(v, Enum):
            return self.prog.variant_index(v)
        raise Unsupported('discriminant of %r' % (v,))

    def binop(self, op, vals, ty):
        a = vals[0]
        b = vals[1] if len(vals) > 1 else None
        if isinstance(a, Enum):
            a = self.prog.variant_index(a)
        if isinstance(b, Enum):
            b = self.prog.variant_index(b)
        if op == 'Eq':
            return eq(a, b)
        if op == 'Ne':
            return ne(a, b)
        if op == 'Lt':
            return lt(a, b)
        if op == 'Le':
            return le(a, b)
        if op == 'Gt':
            return gt(a, b)
        if op == 'Ge':
            return ge(a, b)
        if op == 'Not':
            if isinstance(a, bool) or (not is_c(a) and z3.is_bool(a)):
                return not_(a)
            raise Unsupported('integer Not')
        lo, hi = int_range(ty) if ty in INT_BITS else (0, 2 ** 64 - 1)
        if op in ('AddWithOverflow', 'SubWithOverflow', 'MulWithOverflow'):
            r = {'A': add, 'S': sub, 'M': mul}[op[0]](a, b)
            return Tuple([r, or_(lt(r, lo), gt(r, hi))])
        if op in ('Add', 'Sub', 'Mul', 'AddUnchecked', 'SubUnchecked'):
            r = {'A': add, 'S': sub, 'M': mul}[op[0]](a, b)
            if is_c(r):
                if lo <= r <= hi:
                    return r
                return ((r - lo) % (hi - lo + 1)) + lo
            # wrapping arithmetic on a symbolic value is not modelled: refuse rather than be unsound
            raise Unsupported('unchecked symbolic %s' % op)
        if op in ('BitAnd', 'BitOr', 'BitXor'):
            if isinstance(a, bool) or isinstance(b, bool) or (not is_c(a) and z3.is_bool(a)) or (not is_c(b) and z3.is_bool(b)):
                if op == 'BitAnd':
                    return and_(a, b)
                if op == 'BitOr':
                    return or_(a, b)
                return ne(a, b)
            if is_c(a) and is_c(b):
                return {'BitAnd': a & b, 'BitOr': a | b, 'BitXor': a ^ b}[op]
            return self.bitop(op, a, b, ty)
        if op in ('Shr', 'Shl', 'ShrUnchecked', 'ShlUnchecked') and is_c(b) and ty in INT_BITS and not ty.startswith('i'):
            if is_c(a):
                return (a >> b) if op.startswith('Shr') else ((a << b) & hi)
            if op.startswith('Shr'):
                return Z(a) / (2 ** b)
            return (Z(a) * (2 ** b)) % (hi + 1)
        raise Unsupported('binop ' + op)

    def bitop(self, op, a, b, ty):
        """bit operations on unsigned values through div/mod: AND with a contiguous-bit mask, OR/XOR bitwise
        for u8, OR of values with disjoint constant ranges"""
        bits = INT_BITS.get(ty)
        if bits is None or (ty or '').startswith('i'):
            raise Unsupported('symbolic %s on %s' % (op, ty))
        if op == 'BitAnd' and is_c(a):
            a, b = b, a
        if op == 'BitAnd' and is_c(b):
            mask = b
            if mask == 0:
                return 0
            lo = (mask & -mask).bit_length() - 1
            hi = mask.bit_length()
            if mask == ((1 << hi) - 1) ^ ((1 << lo) - 1):
                # contiguous mask: bits [lo, hi)
                return mul((Z(a) / (2 ** lo)) % (2 ** (hi - lo)), 2 ** lo)
            raise Unsupported('BitAnd with a non-contiguous mask 0x%x' % mask)
        if op in ('BitOr', 'BitXor') and bits <= 16:
            def bit(x, i):
                return (Z(x) / (2 ** i)) % 2 if not is_c(x) else (x >> i) & 1
            r = 0
            for i in range(bits):
                x, y = bit(a, i), bit(b, i)
                if op == 'BitOr':
                    v = ite(or_(eq(x, 1), eq(y, 1)), 1, 0)
                else:
                    v = ite(ne(x, y), 1, 0)
                r = add(r, mul(v, 2 ** i))
            return r
        raise Unsupported('symbolic %s on %s' % (op, ty))

    # ---- terminators
    def term(self, t, frame):
        if t == 'return;':
            return None
        if t == 'unreachable;':
            raise Unsupported('reached unreachable in ' + frame['fn'].name)
        m = re.match(r'^goto -> bb(\d+);$', t)
        if m:
            return int(m.group(1))
        m = re.match(r'^switchInt\((.*)\) -> \[(.*)\];$', t)
        if m:
            v = self.operand(m.group(1), frame)
            if isinstance(v, Enum):
                v = self.prog.variant_index(v)
            targets = [x.split(': ') for x in split_top(m.group(2))]
            isb = isinstance(v, bool) or (not is_c(v) and z3.is_bool(v))
            for val, bb in targets:
                bbn = int(bb[2:])
                if val == 'otherwise':
                    return bbn
                if isb:
                    c = not_(v) if int(val) == 0 else v
                else:
                    c = eq(v, int(val))
                if self.branch(c):
                    return bbn
            raise Unsupported('switch fallthrough')
        m = re.match(r'^assert\((!?)(.*?), "(.*)"(, .*)?\) -> \[success: bb(\d+), unwind.*\];$', t)
        if m:
            c = self.operand(m.group(2), frame)
            if m.group(1):
                c = not_(c)
            if self.branch(c):
                return int(m.group(5))
            raise Panic('assert: ' + m.group(3))
        m = re.match(r'^drop\((.*)\) -> \[return: bb(\d+), unwind.*\];$', t)
        if m:
            return int(m.group(2))
        m = re.match(r'^(?:(.*?) = )?(.*)\((.*)\) -> (?:\[return: bb(\d+), unwind.*\]|unwind.*);$', t)
        if m:
            dest, ret = m.group(1), m.group(4)
            call = t[len(dest) + 3:] if dest else t
            k = call.rfind(') -> ')
            open_i = matching_back(call, k)
            func = call[:open_i]
            args = call[open_i + 1:k]
            argv = [self.operand(a, frame) for a in split_top(args)]
            r = self.call(func, argv, frame)
            if ret is None:
                raise Unsupported('diverging call returned: ' + func)
            if dest:
                self.store(dest, r, frame)
            return int(ret)
        raise Unsupported('terminator ' + t)

    def call(self, func, argv, frame):
        func = subst_generics(func, frame['generics'])
        return self.dispatch(self, func, argv, frame)


class ArrSlice:
    """&[T] view of a fixed array value (items list)"""

    def __init__(self, items):
        self.items = list(items)

    def len(self):
        return len(self.items)

    def index_val(self, i):
        return index_val(Tuple(self.items), i)


def subst_generics(func, generics):
    for k, v in generics.items():
        func = re.sub(r'(?<![\w:])' + re.escape(k) + r'(?![\w])', v, func)
    return func


# ---------------------------------------------------------------- exploration
def explore(ex, run, base_axioms=(), max_paths=200000, scripts=None, prefix=None, budget_s=None, split_at=None):
    """Enumerate feasible paths of `run(ex)`.
    If `scripts` is given, replay exactly those (no solver). Returns [(script, pc, outcome, notes)].
    With budget_s / split_at the exploration stops early and the unexplored subtrees (script
    prefixes) are returned in ex.leftover (disjoint from what was explored)."""
    out = []
    ex.leftover = []
    if scripts is not None:
        for sc in scripts:
            ex.begin(sc, replay_only=True)
            try:
                ret = run(ex)
                outcome = ('ret', ret)
            except Panic as p:
                outcome = ('panic', p.msg)
            if ex.pos != len(ex.script):
                raise Unsupported('replay did not consume its script')
            out.append((list(sc), list(ex.items), outcome, list(ex.notes)))
        return out
    work = [list(prefix or [])]
    t0 = time.time()
    while work:
        if (budget_s is not None and time.time() - t0 > budget_s) or (split_at is not None and len(work) >= split_at):
            ex.leftover = work
            break
        script = work.pop()
        ex.begin(script, base_axioms)
        try:
            ret = run(ex)
            outcome = ('ret', ret)
        except Panic as p:
            outcome = ('panic', p.msg)
        except Infeasible:
            outcome = None
        work.extend(ex.pending)
        if outcome is not None:
            out.append((list(ex.script[:ex.pos]), list(ex.items), outcome, list(ex.notes)))
            if len(out) >= max_paths:
                raise Unsupported('path bound exceeded')
    return out
