import sys, time, os
sys.path.insert(0, os.path.dirname(os.path.abspath(__file__)))
import z3
import core
from core import *
import models, v1sum
lmax=int(os.environ.get('LMAX','40')); kind=sys.argv[1] if len(sys.argv)>1 else 'str'
prog=v1sum.program(refresh=False)
ctx=models.InputCtx(lmax)
times=[]
orig=Exec.feasible
def feas(self,c):
    t0=time.time(); r=orig(self,c); dt=time.time()-t0; times.append((dt, len(self.pc)))
    if dt>1.0:
        self.solver.push(); self.solver.add(c)
        open('/tmp/slow_%d.smt2'%len(times),'w').write(self.solver.to_smt2()); self.solver.pop()
    return r
Exec.feasible=feas
t0=time.time()
import signal
class Stop(Exception): pass
def h(*a): raise Stop()
signal.signal(signal.SIGALRM,h)
signal.alarm(int(os.environ.get('CAP','60')))
try:
    paths=v1sum.summarize(prog,kind,ctx)
except Stop:
    print('stopped')
print(len(times),'checks', sum(t for t,_ in times))
times.sort(reverse=True)
print(times[:15])
import statistics
print('median',statistics.median(t for t,_ in times))
