//! C03 (v2 half) — parsing, accessors and iteration never panic or hang.
//! The property *is* Kani's built-in checks (panic, arithmetic overflow as in an
//! overflow-checked build, out-of-bounds, invalid pointer, unwinding assertions).
use ppp::v2::{Header, TypeLengthValues};
use ppp::PartialResult;

/// Every accessor on the result of parsing any 240-byte buffer.
#[kani::proof]
#[kani::unwind(14)]
pub(crate) fn c03_v2_accessors_no_panic_240() {
    const N: usize = 240;
    let buf: [u8; N] = kani::any();
    let n: usize = kani::any();
    kani::assume(n <= N);
    let r = Header::try_from(&buf[..n]);
    let _ = r.is_complete();
    let _ = r.is_incomplete();
    if let Ok(h) = &r {
        let _ = h.length();
        let _ = h.len();
        let _ = h.is_empty();
        let _ = h.address_family();
        let _ = h.address_bytes();
        let _ = h.tlv_bytes();
        let _ = h.as_bytes();
        let mut t = h.tlvs();
        let _ = t.len();
        let _ = t.is_empty();
        let _ = t.as_bytes();
        let first = t.next();
        if let Some(Ok(tlv)) = &first {
            let _ = tlv.len();
            let _ = tlv.is_empty();
            kani::cover!(true, "a TLV reached through a header");
        }
        core::mem::forget(first);
        // ppp-authored sub-expressions of Display for Header
        let _ = h.version | h.command;
        let _ = h.command | h.version;
        let _ = h.protocol | h.address_family();
        let _ = h.address_family() | h.protocol;
        let _ = h.addresses.len();
        let _ = h.addresses.is_empty();
        let _ = u16::from(h.address_family());
        kani::cover!(h.length() == 224, "largest header in the bound");
    }
    core::mem::forget(r);
}

/// Iteration terminates within n/3 + 1 items on any section: the iterator is called at most n/3 + 2
/// times and must have returned `None` by then (an explicit assertion, so that a counterexample can
/// be replayed natively without hanging).
macro_rules! tlv_terminates {
    ($name:ident, $n:expr, $unwind:expr) => {
        #[kani::proof]
        #[kani::unwind($unwind)]
        pub(crate) fn $name() {
            const N: usize = $n;
            let buf: [u8; N] = kani::any();
            let n: usize = kani::any();
            kani::assume(n <= N);
            let mut it = TypeLengthValues::from(&buf[..n]);
            let mut items = 0usize;
            let mut done = false;
            let mut calls = 0usize;
            while calls < N / 3 + 2 {
                let x = it.next();
                let end = x.is_none();
                core::mem::forget(x);
                if end {
                    done = true;
                    break;
                }
                items += 1;
                calls += 1;
            }
            assert!(done, "TLV iteration did not end within n/3 + 1 items");
            assert!(items <= n / 3 + 1);
            kani::cover!(items == N / 3, "maximal item count");
            kani::cover!(items == 1 && n == N, "single item spanning the section");
        }
    };
}
tlv_terminates!(c03_tlv_iteration_terminates_24, 24, 11);
tlv_terminates!(c03_tlv_iteration_terminates_48, 48, 19);
