//! C14 — v2 header views partition the header consistently.
use crate::refmodel::*;
use ppp::v2::{AddressFamily, Addresses, Header};

const N: usize = 240;

fn fam_code(f: AddressFamily) -> u8 {
    match f {
        AddressFamily::Unspecified => 0,
        AddressFamily::IPv4 => 1,
        AddressFamily::IPv6 => 2,
        AddressFamily::Unix => 3,
    }
}

fn check_views(h: &Header<'_>, buf: &[u8; N]) {
    let len = (buf[14] as usize) * 256 + buf[15] as usize;
    let fam = buf[13] >> 4;
    // lengths
    assert!(h.length() == len);
    assert!(h.len() == 16 + len);
    assert!(h.as_bytes().len() == 16 + len);
    assert!(h.length() + 16 == h.len());
    assert!(!h.is_empty());
    // family: wire nibble == reported == family of decoded value
    let af = h.address_family();
    assert!(fam_code(af) == fam);
    assert!(fam_code(h.addresses.address_family()) == fam);
    assert!((af as u8) == buf[13] & 0xF0);
    // sizes
    let want = if fam == 0 { len } else { fam_size(fam) };
    let a = h.address_bytes();
    let t = h.tlv_bytes();
    assert!(a.len() == want);
    assert!(a.len() + t.len() == len);
    // adjacency: the two views tile header[16..]
    let all = h.as_bytes();
    assert!(a.as_ptr() == all[16..].as_ptr());
    assert!(t.as_ptr() == all[16 + want..].as_ptr());
    if let Some(i) = crate::any_below(len) {
        if i < want {
            assert!(a[i] == buf[16 + i]);
        } else {
            assert!(t[i - want] == buf[16 + i]);
        }
    }
    kani::cover!(len == 0, "empty payload");
    // tlvs() is a view over tlv_bytes
    let tl = h.tlvs();
    assert!(tl.as_bytes().as_ptr() == t.as_ptr());
    assert!(tl.as_bytes().len() == t.len());
    assert!(tl.len() as usize == t.len());
    assert!(tl.is_empty() == (t.len() == 0));
    // Addresses::len / is_empty / byte_length / u16::from
    assert!(h.addresses.len() == fam_size(fam));
    assert!(h.addresses.is_empty() == (fam == 0));
    match af.byte_length() {
        None => assert!(fam == 0),
        Some(b) => assert!(fam != 0 && b == fam_size(fam)),
    }
    assert!(u16::from(af) as usize == fam_size(fam));
    // decoded fields are the big-endian decoding of the address view
    match h.addresses {
        Addresses::Unspecified => {
            kani::cover!(
                len > 0,
                "unspecified family with payload: whole payload is the address view"
            );
        }
        Addresses::IPv4(v) => {
            let s = v.source_address.octets();
            let d = v.destination_address.octets();
            assert!(s[0] == a[0] && s[1] == a[1] && s[2] == a[2] && s[3] == a[3]);
            assert!(d[0] == a[4] && d[1] == a[5] && d[2] == a[6] && d[3] == a[7]);
            assert!(v.source_port == be16(a[8], a[9]));
            assert!(v.destination_port == be16(a[10], a[11]));
            kani::cover!(t.len() > 0, "ipv4 with tlv bytes");
        }
        Addresses::IPv6(v) => {
            let j: usize = kani::any();
            kani::assume(j < 16);
            assert!(v.source_address.octets()[j] == a[j]);
            assert!(v.destination_address.octets()[j] == a[16 + j]);
            assert!(v.source_port == be16(a[32], a[33]));
            assert!(v.destination_port == be16(a[34], a[35]));
            kani::cover!(true, "ipv6");
        }
        Addresses::Unix(u) => {
            let j: usize = kani::any();
            kani::assume(j < 108);
            assert!(u.source[j] == a[j]);
            assert!(u.destination[j] == a[108 + j]);
            kani::cover!(true, "unix");
        }
    }
}

#[kani::proof]
#[kani::unwind(14)]
pub(crate) fn c14_views_partition_240() {
    let buf: [u8; N] = kani::any();
    let n: usize = kani::any();
    kani::assume(n <= N);
    let r = Header::try_from(&buf[..n]);
    if let Ok(h) = &r {
        check_views(h, &buf);
    }
    core::mem::forget(r);
}
