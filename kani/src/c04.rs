//! C04 (v2 half) — an accepted header never depends on or consumes the bytes that follow it.
use ppp::v2::{Addresses, Header};

const N: usize = 240;

fn same_addresses(a: &Addresses, b: &Addresses) -> bool {
    match (a, b) {
        (Addresses::Unspecified, Addresses::Unspecified) => true,
        (Addresses::IPv4(x), Addresses::IPv4(y)) => {
            x.source_address.octets() == y.source_address.octets()
                && x.destination_address.octets() == y.destination_address.octets()
                && x.source_port == y.source_port
                && x.destination_port == y.destination_port
        }
        (Addresses::IPv6(x), Addresses::IPv6(y)) => {
            let j: usize = kani::any();
            kani::assume(j < 16);
            x.source_address.octets()[j] == y.source_address.octets()[j]
                && x.destination_address.octets()[j] == y.destination_address.octets()[j]
                && x.source_port == y.source_port
                && x.destination_port == y.destination_port
        }
        (Addresses::Unix(x), Addresses::Unix(y)) => {
            let j: usize = kani::any();
            kani::assume(j < 108);
            x.source[j] == y.source[j] && x.destination[j] == y.destination[j]
        }
        _ => false,
    }
}

/// buf[..n] accepted with header length k  ==>  for every m in [k, 240] (the bytes
/// between k and m are arbitrary: they are the symbolic rest of buf, i.e. every
/// trailer up to the bound, including the empty one) the result is Ok with identical fields and header bytes.
#[kani::proof]
#[kani::unwind(14)]
pub(crate) fn c04_v2_trailer_independent_240() {
    let buf: [u8; N] = kani::any();
    let n: usize = kani::any();
    kani::assume(n <= N);
    let r = Header::try_from(&buf[..n]);
    if let Ok(h) = &r {
        let k = h.as_bytes().len();
        assert!(k <= n);
        assert!(k == 16 + (buf[14] as usize) * 256 + buf[15] as usize);
        let m: usize = kani::any();
        kani::assume(m >= k && m <= N);
        let r2 = Header::try_from(&buf[..m]);
        match &r2 {
            Ok(h2) => {
                assert!(h2.as_bytes().len() == k);
                assert!(h2.as_bytes().as_ptr() == buf.as_ptr());
                assert!(h2.version == h.version);
                assert!(h2.command == h.command);
                assert!(h2.protocol == h.protocol);
                assert!(same_addresses(&h.addresses, &h2.addresses));
                kani::cover!(m == k && n > k, "header bytes on their own");
                kani::cover!(m > n, "longer trailer");
            }
            Err(_) => assert!(
                false,
                "accepted input rejected with a different trailer length"
            ),
        }
        core::mem::forget(r2);
    }
    core::mem::forget(r);
}

/// Two buffers that agree on the first k bytes (k = accepted header length of the
/// first) but differ arbitrarily afterwards give identical results: bytes after the
/// header are never interpreted. The agreement is imposed by construction:
/// buf2[i] = if i < k { buf[i] } else { other[i] }.
#[kani::proof]
#[kani::unwind(66)]
pub(crate) fn c04_v2_other_trailer_64() {
    const M: usize = 64;
    let buf: [u8; M] = kani::any();
    let other: [u8; M] = kani::any();
    let n: usize = kani::any();
    kani::assume(n <= M);
    let r = Header::try_from(&buf[..n]);
    if let Ok(h) = &r {
        let k = h.as_bytes().len();
        let mut buf2 = other;
        let mut i = 0;
        while i < M {
            if i < k {
                buf2[i] = buf[i];
            }
            i += 1;
        }
        let m: usize = kani::any();
        kani::assume(m >= k && m <= M);
        let r2 = Header::try_from(&buf2[..m]);
        match &r2 {
            Ok(h2) => {
                assert!(h2.as_bytes().len() == k);
                assert!(
                    h2.version == h.version && h2.command == h.command && h2.protocol == h.protocol
                );
                assert!(same_addresses(&h.addresses, &h2.addresses));
                if let Some(j) = crate::any_below(k) {
                    assert!(h2.as_bytes()[j] == h.as_bytes()[j]);
                }
                kani::cover!(
                    m > k && k > 16,
                    "different trailer after a header with payload"
                );
            }
            Err(_) => assert!(false, "trailer changed the verdict"),
        }
        core::mem::forget(r2);
    }
    core::mem::forget(r);
}
