//! Independent reference model of the PROXY v2 wire format, written from the
//! protocol specification (haproxy proxy-protocol.txt section 2.2), sharing no
//! code with ppp. Everything is straight-line / index based so that CBMC needs
//! no loop unwinding for it.

pub const SIG: [u8; 12] = [
    0x0D, 0x0A, 0x0D, 0x0A, 0x00, 0x0D, 0x0A, 0x51, 0x55, 0x49, 0x54, 0x0A,
];

#[derive(Copy, Clone, PartialEq, Eq, Debug)]
pub enum RefV2 {
    /// Accepted: (command nibble, family nibble, transport nibble, declared length)
    Ok {
        cmd: u8,
        fam: u8,
        proto: u8,
        len: usize,
    },
    /// fewer than 16 bytes, all of them a prefix of signature + anything
    Incomplete(usize),
    BadSignature,
    BadVersion(u8),
    BadCommand(u8),
    BadFamily(u8),
    BadProtocol(u8),
    LengthTooSmall(usize, usize),
    Partial(usize, usize),
}

pub fn fam_size(fam: u8) -> usize {
    match fam {
        0 => 0,
        1 => 12,
        2 => 36,
        3 => 216,
        _ => usize::MAX,
    }
}

#[inline(always)]
pub fn sig_prefix_ok(buf: &[u8], n: usize) -> bool {
    // every present byte among the first 12 equals the signature byte
    (n < 1 || buf[0] == SIG[0])
        && (n < 2 || buf[1] == SIG[1])
        && (n < 3 || buf[2] == SIG[2])
        && (n < 4 || buf[3] == SIG[3])
        && (n < 5 || buf[4] == SIG[4])
        && (n < 6 || buf[5] == SIG[5])
        && (n < 7 || buf[6] == SIG[6])
        && (n < 8 || buf[7] == SIG[7])
        && (n < 9 || buf[8] == SIG[8])
        && (n < 10 || buf[9] == SIG[9])
        && (n < 11 || buf[10] == SIG[10])
        && (n < 12 || buf[11] == SIG[11])
}

/// Reference verdict for the first `n` bytes of `buf` (n <= buf.len()).
pub fn ref_v2(buf: &[u8], n: usize) -> RefV2 {
    if !sig_prefix_ok(buf, n) {
        return RefV2::BadSignature;
    }
    if n < 16 {
        return RefV2::Incomplete(n);
    }
    let vc = buf[12];
    let fp = buf[13];
    if vc >> 4 != 2 {
        return RefV2::BadVersion(vc & 0xF0);
    }
    if vc & 0x0F > 1 {
        return RefV2::BadCommand(vc & 0x0F);
    }
    if fp >> 4 > 3 {
        return RefV2::BadFamily(fp & 0xF0);
    }
    if fp & 0x0F > 2 {
        return RefV2::BadProtocol(fp & 0x0F);
    }
    let len = (buf[14] as usize) * 256 + (buf[15] as usize);
    let need = fam_size(fp >> 4);
    if len < need {
        return RefV2::LengthTooSmall(len, need);
    }
    if n < 16 + len {
        return RefV2::Partial(n - 16, len);
    }
    RefV2::Ok {
        cmd: vc & 0x0F,
        fam: fp >> 4,
        proto: fp & 0x0F,
        len,
    }
}

pub fn be16(hi: u8, lo: u8) -> u16 {
    ((hi as u16) << 8) | (lo as u16)
}
