//! C05 (v2 half) — every proper prefix of an accepted header is reported incomplete.
use ppp::v2::{Header, ParseError};
use ppp::PartialResult;

const N: usize = 240;

#[kani::proof]
#[kani::unwind(14)]
pub(crate) fn c05_v2_prefixes_incomplete_240() {
    let buf: [u8; N] = kani::any();
    let n: usize = kani::any();
    kani::assume(n <= N);
    let r = Header::try_from(&buf[..n]);
    // a success is never flagged incomplete; is_complete is the negation
    assert!(r.is_complete() == !r.is_incomplete());
    if let Ok(h) = &r {
        assert!(!r.is_incomplete());
        let k = h.as_bytes().len();
        let m: usize = kani::any();
        kani::assume(m < k); // k >= 16: never empty
        let p = Header::try_from(&buf[..m]);
        assert!(p.is_err());
        assert!(p.is_incomplete());
        assert!(!p.is_complete());
        match &p {
            Err(ParseError::Incomplete(x)) => {
                assert!(*x == m && m < 16);
                kani::cover!(m == 0, "empty prefix");
                kani::cover!(m == 13, "prefix inside the fixed part");
            }
            Err(ParseError::Partial(have, need)) => {
                assert!(*have == m - 16 && *need == k - 16);
                kani::cover!(m == 16, "prefix = fixed part only");
                kani::cover!(m == k - 1 && k > 40, "one byte short");
            }
            _ => assert!(
                false,
                "prefix of an accepted header gave a terminal error or success"
            ),
        }
        core::mem::forget(p);
    }
    core::mem::forget(r);
}
