//! C12 (v2 half) — a single malformed element is rejected terminally and blamed on the right field.
use crate::refmodel::*;
use ppp::v2::{Header, ParseError};
use ppp::PartialResult;

const N: usize = 240;

/// Start from any *complete well-formed* header in buf[..n] (reference predicate),
/// corrupt exactly one element, and require the exact variant + payload, terminal.
#[kani::proof]
#[kani::unwind(14)]
pub(crate) fn c12_v2_single_corruption_240() {
    let mut buf: [u8; N] = kani::any();
    let n: usize = kani::any();
    kani::assume(n <= N);
    kani::assume(matches!(ref_v2(&buf, n), RefV2::Ok { .. }));
    let which: u8 = kani::any();
    let v: u8 = kani::any();
    kani::assume(which < 6);
    let fam = buf[13] >> 4;
    let len = (buf[14] as usize) * 256 + buf[15] as usize;
    match which {
        0 => {
            // one signature byte replaced by a different value
            let i: usize = kani::any();
            kani::assume(i < 12 && v != buf[i]);
            buf[i] = v;
            let r = Header::try_from(&buf[..n]);
            assert!(matches!(&r, Err(ParseError::Prefix)));
            assert!(r.is_complete() && !r.is_incomplete());
            kani::cover!(i == 0, "first signature byte corrupted");
            kani::cover!(i == 11, "last signature byte corrupted");
            core::mem::forget(r);
        }
        1 => {
            // version nibble != 2 (command nibble kept)
            kani::assume(v < 16 && v != 2);
            buf[12] = (v << 4) | (buf[12] & 0x0F);
            let r = Header::try_from(&buf[..n]);
            assert!(matches!(&r, Err(ParseError::Version(x)) if *x == v << 4));
            assert!(r.is_complete() && !r.is_incomplete());
            kani::cover!(v == 0, "version 0");
            kani::cover!(v == 15, "version 15");
            core::mem::forget(r);
        }
        2 => {
            // command nibble >= 2
            kani::assume(v >= 2 && v < 16);
            buf[12] = 0x20 | v;
            let r = Header::try_from(&buf[..n]);
            assert!(matches!(&r, Err(ParseError::Command(x)) if *x == v));
            assert!(r.is_complete() && !r.is_incomplete());
            kani::cover!(v == 2, "command 2");
            core::mem::forget(r);
        }
        3 => {
            // family nibble >= 4 (transport kept)
            kani::assume(v >= 4 && v < 16);
            buf[13] = (v << 4) | (buf[13] & 0x0F);
            let r = Header::try_from(&buf[..n]);
            assert!(matches!(&r, Err(ParseError::AddressFamily(x)) if *x == v << 4));
            assert!(r.is_complete() && !r.is_incomplete());
            kani::cover!(v == 4, "family 4");
            core::mem::forget(r);
        }
        4 => {
            // transport nibble >= 3 (family kept)
            kani::assume(v >= 3 && v < 16);
            buf[13] = (buf[13] & 0xF0) | v;
            let r = Header::try_from(&buf[..n]);
            assert!(matches!(&r, Err(ParseError::Protocol(x)) if *x == v));
            assert!(r.is_complete() && !r.is_incomplete());
            kani::cover!(v == 3, "transport 3");
            core::mem::forget(r);
        }
        _ => {
            // declared length smaller than the family's block
            let l: u16 = kani::any();
            kani::assume((l as usize) < fam_size(fam));
            buf[14] = (l >> 8) as u8;
            buf[15] = (l & 0xFF) as u8;
            let r = Header::try_from(&buf[..n]);
            assert!(
                matches!(&r, Err(ParseError::InvalidAddresses(a, b)) if *a == l as usize && *b == fam_size(fam))
            );
            assert!(r.is_complete() && !r.is_incomplete());
            kani::cover!(fam == 1 && l == 11, "ipv4 with length 11");
            kani::cover!(fam == 3 && l == 215, "unix with length 215");
            kani::cover!(fam == 2 && l == 0, "ipv6 with length 0");
            core::mem::forget(r);
        }
    }
    let _ = len;
}

/// Priority / exactness of every terminal v2 error on arbitrary input (not only
/// single corruptions): the variant and payload are those of the first offending
/// element in wire order, as computed by the reference decoder.
#[kani::proof]
#[kani::unwind(14)]
pub(crate) fn c12_v2_error_blame_exact_240() {
    let buf: [u8; N] = kani::any();
    let n: usize = kani::any();
    kani::assume(n <= N);
    let r = Header::try_from(&buf[..n]);
    let want = ref_v2(&buf, n);
    let ok = match (&r, want) {
        (Ok(_), RefV2::Ok { .. }) => true,
        (Err(ParseError::Incomplete(a)), RefV2::Incomplete(b)) => *a == b,
        (Err(ParseError::Prefix), RefV2::BadSignature) => true,
        (Err(ParseError::Version(a)), RefV2::BadVersion(b)) => *a == b,
        (Err(ParseError::Command(a)), RefV2::BadCommand(b)) => *a == b,
        (Err(ParseError::AddressFamily(a)), RefV2::BadFamily(b)) => *a == b,
        (Err(ParseError::Protocol(a)), RefV2::BadProtocol(b)) => *a == b,
        (Err(ParseError::InvalidAddresses(a, b)), RefV2::LengthTooSmall(c, d)) => {
            *a == c && *b == d
        }
        (Err(ParseError::Partial(a, b)), RefV2::Partial(c, d)) => *a == c && *b == d,
        _ => false,
    };
    assert!(ok);
    let terminal = !matches!(
        want,
        RefV2::Ok { .. } | RefV2::Incomplete(_) | RefV2::Partial(..)
    );
    if terminal {
        assert!(r.is_err() && r.is_complete() && !r.is_incomplete());
    }
    kani::cover!(
        matches!(want, RefV2::BadSignature) && n < 12,
        "short input that is not a signature prefix"
    );
    kani::cover!(matches!(want, RefV2::BadVersion(_)));
    kani::cover!(matches!(want, RefV2::BadCommand(_)));
    kani::cover!(matches!(want, RefV2::BadFamily(_)));
    kani::cover!(matches!(want, RefV2::BadProtocol(_)));
    kani::cover!(matches!(want, RefV2::LengthTooSmall(..)));
    core::mem::forget(r);
}
