//! C11 — TLV iteration yields exactly the standard type-length-value walk and then stops.
use ppp::v2::{Header, ParseError, TypeLengthValues};

/// Generic walk over a fully symbolic section of at most `$n` bytes against a
/// reference cursor. `$steps` = n/3 + 2 iterations of the checking loop
/// (n/3 + 1 items at most, plus the call that must return None).
macro_rules! tlv_walk {
    ($name:ident, $n:expr, $unwind:expr) => {
        #[kani::proof]
        #[kani::unwind($unwind)]
        pub(crate) fn $name() {
            const N: usize = $n;
            let buf: [u8; N] = kani::any();
            let n: usize = kani::any();
            kani::assume(n <= N);
            let sec = &buf[..n];
            let mut it = TypeLengthValues::from(sec);
            assert!(it.as_bytes().as_ptr() == sec.as_ptr() && it.as_bytes().len() == n);
            assert!(it.len() as usize == n);
            assert!(it.is_empty() == (n == 0));
            let mut off: usize = 0; // reference cursor
            let mut items: usize = 0;
            let mut errored = false;
            let mut step = 0;
            while step < N / 3 + 2 {
                let got = it.next();
                if errored || off >= n {
                    // after an error or after the end: None, for ever
                    assert!(got.is_none());
                    core::mem::forget(got);
                    break;
                }
                items += 1;
                if n - off < 3 {
                    match &got {
                        Some(Err(ParseError::Leftovers(_))) => {} // the payload of Leftovers is not specified by C11
                        _ => assert!(
                            false,
                            "fewer than 3 bytes remain: exactly one Leftovers error"
                        ),
                    }
                    errored = true;
                    kani::cover!(items > 1, "leftovers after at least one item");
                } else {
                    let ty = buf[off];
                    let len = (buf[off + 1] as usize) * 256 + buf[off + 2] as usize;
                    if n - off - 3 < len {
                        match &got {
                            Some(Err(ParseError::InvalidTLV(t, l))) => {
                                assert!(*t == ty);
                                assert!(*l as usize == len);
                            }
                            _ => assert!(
                                false,
                                "overrun: exactly one InvalidTLV(type, declared length)"
                            ),
                        }
                        errored = true;
                        kani::cover!(len > 255, "overrun with a length using the high byte");
                    } else {
                        match &got {
                            Some(Ok(tlv)) => {
                                assert!(tlv.kind == ty);
                                let v: &[u8] = tlv.value.as_ref();
                                assert!(v.len() == len);
                                assert!(tlv.len() == len);
                                assert!(tlv.is_empty() == (len == 0));
                                // the value is exactly the input bytes at the cursor (no gap / overlap)
                                assert!(v.as_ptr() == buf[off + 3..].as_ptr());
                                if let Some(j) = crate::any_below(len) {
                                    assert!(v[j] == buf[off + 3 + j]);
                                }
                                kani::cover!(len == 0, "empty value yielded");
                                kani::cover!(
                                    len >= 4 && off > 0,
                                    "second or later item with a value"
                                );
                            }
                            _ => assert!(false, "a well-formed item must be yielded"),
                        }
                        off += 3 + len;
                    }
                }
                core::mem::forget(got);
                step += 1;
            }
            // the loop ended through the None branch (step bound n/3 + 1 items is enough)
            assert!(step < N / 3 + 2);
            assert!(items <= n / 3 + 1);
            if !errored {
                assert!(off == n); // items tile the section exactly
                kani::cover!(items == N / 3, "maximal number of items");
            }
            // and it stays exhausted
            let again = it.next();
            assert!(again.is_none());
            core::mem::forget(again);
        }
    };
}

tlv_walk!(c11_walk_16, 16, 8);
tlv_walk!(c11_walk_24, 24, 11);

/// Values that are actually long (255 / 256 / up to 297 bytes) being *yielded*: 300-byte
/// section, first 6 bytes symbolic, rest constant zero.
#[kani::proof]
#[kani::unwind(6)]
pub(crate) fn c11_long_value_300() {
    const N: usize = 300;
    let mut buf = [0u8; N];
    let head: [u8; 6] = kani::any();
    buf[0] = head[0];
    buf[1] = head[1];
    buf[2] = head[2];
    buf[3] = head[3];
    buf[4] = head[4];
    buf[5] = head[5];
    let n: usize = kani::any();
    kani::assume(n <= N);
    let mut it = TypeLengthValues::from(&buf[..n]);
    let first = it.next();
    let len = (buf[1] as usize) * 256 + buf[2] as usize;
    if n >= 3 && n - 3 >= len {
        match &first {
            Some(Ok(t)) => {
                assert!(t.kind == buf[0]);
                assert!(t.value.len() == len);
                if let Some(j) = crate::any_below(len) {
                    assert!(t.value[j] == buf[3 + j]);
                }
                kani::cover!(len == 255, "255-byte value yielded");
                kani::cover!(len == 256, "256-byte value yielded");
                kani::cover!(len == 297, "297-byte value yielded");
            }
            _ => assert!(false),
        }
        // the next item starts right after the value
        let second = it.next();
        let off = 3 + len;
        if off >= n {
            assert!(second.is_none());
        } else if n - off < 3 {
            assert!(matches!(&second, Some(Err(ParseError::Leftovers(_)))));
        } else {
            let l2 = (buf[off + 1] as usize) * 256 + buf[off + 2] as usize;
            if n - off - 3 < l2 {
                assert!(
                    matches!(&second, Some(Err(ParseError::InvalidTLV(t, l))) if *t == buf[off] && *l as usize == l2)
                );
            } else {
                assert!(
                    matches!(&second, Some(Ok(t)) if t.kind == buf[off] && t.value.len() == l2)
                );
            }
        }
        core::mem::forget(second);
    } else if n == 0 {
        assert!(first.is_none());
    } else if n < 3 {
        assert!(matches!(&first, Some(Err(ParseError::Leftovers(_)))));
    } else {
        assert!(
            matches!(&first, Some(Err(ParseError::InvalidTLV(t, l))) if *t == buf[0] && *l as usize == len)
        );
        kani::cover!(len == 65535, "declared 65535 overruns");
        let nx = it.next();
        assert!(nx.is_none());
        core::mem::forget(nx);
    }
    core::mem::forget(first);
}

/// The section iterated for an accepted header is the payload after the address block.
#[kani::proof]
#[kani::unwind(14)]
pub(crate) fn c11_header_section_is_payload_tail_240() {
    const N: usize = 240;
    let buf: [u8; N] = kani::any();
    let n: usize = kani::any();
    kani::assume(n <= N);
    let r = Header::try_from(&buf[..n]);
    if let Ok(h) = &r {
        let len = (buf[14] as usize) * 256 + buf[15] as usize;
        let fam = buf[13] >> 4;
        let ab = match fam {
            0 => len,
            1 => 12,
            2 => 36,
            _ => 216,
        };
        let mut it = h.tlvs();
        let sec = it.as_bytes();
        assert!(sec.len() == len - ab);
        assert!(sec.as_ptr() == buf[16 + ab..].as_ptr());
        // first item read from exactly there
        let first = it.next();
        let rem = len - ab;
        if rem == 0 {
            assert!(first.is_none());
            kani::cover!(fam == 0 && len > 0, "unspecified family: no TLV section");
        } else if rem >= 3 {
            let l = (buf[16 + ab + 1] as usize) * 256 + buf[16 + ab + 2] as usize;
            if rem - 3 >= l {
                assert!(
                    matches!(&first, Some(Ok(t)) if t.kind == buf[16 + ab] && t.value.len() == l)
                );
                kani::cover!(fam == 3, "unix header with a TLV");
                kani::cover!(fam == 1 && l > 0, "ipv4 header with a TLV");
            }
        }
        core::mem::forget(first);
    }
    core::mem::forget(r);
}
