//! C19 — constructors and socket-address conversions keep every endpoint in its role.
use ppp::{v1, v2};
use std::net::{Ipv4Addr, Ipv6Addr, SocketAddr, SocketAddrV4, SocketAddrV6};

fn any_v4() -> Ipv4Addr {
    let o: [u8; 4] = kani::any();
    Ipv4Addr::new(o[0], o[1], o[2], o[3])
}
fn any_v6() -> Ipv6Addr {
    let o: [u8; 16] = kani::any();
    Ipv6Addr::from(o)
}

#[kani::proof]
pub(crate) fn c19_ipv4_new_roles() {
    let (s, d) = (any_v4(), any_v4());
    let (sp, dp): (u16, u16) = (kani::any(), kani::any());
    // T = Ipv4Addr
    let a = v2::IPv4::new(s, d, sp, dp);
    assert!(
        a.source_address == s
            && a.destination_address == d
            && a.source_port == sp
            && a.destination_port == dp
    );
    // T = [u8; 4]
    let b = v2::IPv4::new(s.octets(), d.octets(), sp, dp);
    assert!(
        b.source_address == s
            && b.destination_address == d
            && b.source_port == sp
            && b.destination_port == dp
    );
    // T = u32
    let c = v1::IPv4::new(u32::from(s), u32::from(d), sp, dp);
    assert!(
        c.source_address == s
            && c.destination_address == d
            && c.source_port == sp
            && c.destination_port == dp
    );
    // v1 constructor + From
    match v1::Addresses::new_tcp4(s, d, sp, dp) {
        v1::Addresses::Tcp4(x) => {
            assert!(
                x.source_address == s
                    && x.destination_address == d
                    && x.source_port == sp
                    && x.destination_port == dp
            )
        }
        _ => assert!(false),
    }
    match v1::Addresses::from(a) {
        v1::Addresses::Tcp4(x) => assert!(x == a),
        _ => assert!(false),
    }
    match v2::Addresses::from(a) {
        v2::Addresses::IPv4(x) => assert!(x == a),
        _ => assert!(false),
    }
    kani::cover!(s != d && sp != dp, "distinct endpoints");
}

#[kani::proof]
#[kani::unwind(17)]
pub(crate) fn c19_ipv6_new_roles() {
    let (s, d) = (any_v6(), any_v6());
    let (sp, dp): (u16, u16) = (kani::any(), kani::any());
    let a = v2::IPv6::new(s, d, sp, dp);
    assert!(
        a.source_address == s
            && a.destination_address == d
            && a.source_port == sp
            && a.destination_port == dp
    );
    let b = v2::IPv6::new(s.octets(), d.octets(), sp, dp);
    assert!(
        b.source_address == s
            && b.destination_address == d
            && b.source_port == sp
            && b.destination_port == dp
    );
    let c = v1::IPv6::new(s.segments(), d.segments(), sp, dp);
    assert!(
        c.source_address == s
            && c.destination_address == d
            && c.source_port == sp
            && c.destination_port == dp
    );
    let e = v1::IPv6::new(u128::from(s), u128::from(d), sp, dp);
    assert!(
        e.source_address == s
            && e.destination_address == d
            && e.source_port == sp
            && e.destination_port == dp
    );
    match v1::Addresses::new_tcp6(s, d, sp, dp) {
        v1::Addresses::Tcp6(x) => {
            assert!(
                x.source_address == s
                    && x.destination_address == d
                    && x.source_port == sp
                    && x.destination_port == dp
            )
        }
        _ => assert!(false),
    }
    match v1::Addresses::from(a) {
        v1::Addresses::Tcp6(x) => assert!(x == a),
        _ => assert!(false),
    }
    match v2::Addresses::from(a) {
        v2::Addresses::IPv6(x) => assert!(x == a),
        _ => assert!(false),
    }
    kani::cover!(s != d && sp != dp, "distinct endpoints");
}

#[kani::proof]
pub(crate) fn c19_unix_new_roles() {
    let s: [u8; 108] = kani::any();
    let d: [u8; 108] = kani::any();
    let u = v2::Unix::new(s, d);
    let j: usize = kani::any();
    kani::assume(j < 108);
    assert!(u.source[j] == s[j] && u.destination[j] == d[j]);
    match v2::Addresses::from(u) {
        v2::Addresses::Unix(x) => assert!(x.source[j] == s[j] && x.destination[j] == d[j]),
        _ => assert!(false),
    }
    kani::cover!(s[j] != d[j], "distinct paths");
}

fn any_sock(kind: bool) -> SocketAddr {
    if kind {
        SocketAddr::V4(SocketAddrV4::new(any_v4(), kani::any()))
    } else {
        SocketAddr::V6(SocketAddrV6::new(
            any_v6(),
            kani::any(),
            kani::any(),
            kani::any(),
        ))
    }
}

#[kani::proof]
#[kani::unwind(17)]
pub(crate) fn c19_socket_pair_conversions() {
    let ks: bool = kani::any();
    let kd: bool = kani::any();
    let s = any_sock(ks);
    let d = any_sock(kd);
    let a1 = v1::Addresses::from((s, d));
    let a2 = v2::Addresses::from((s, d));
    match (s, d) {
        (SocketAddr::V4(x), SocketAddr::V4(y)) => {
            match a1 {
                v1::Addresses::Tcp4(a) => assert!(
                    a.source_address == *x.ip()
                        && a.source_port == x.port()
                        && a.destination_address == *y.ip()
                        && a.destination_port == y.port()
                ),
                _ => assert!(false),
            }
            match a2 {
                v2::Addresses::IPv4(a) => assert!(
                    a.source_address == *x.ip()
                        && a.source_port == x.port()
                        && a.destination_address == *y.ip()
                        && a.destination_port == y.port()
                ),
                _ => assert!(false),
            }
            kani::cover!(x.ip() != y.ip() && x.port() != y.port(), "v4/v4 distinct");
        }
        (SocketAddr::V6(x), SocketAddr::V6(y)) => {
            match a1 {
                v1::Addresses::Tcp6(a) => assert!(
                    a.source_address == *x.ip()
                        && a.source_port == x.port()
                        && a.destination_address == *y.ip()
                        && a.destination_port == y.port()
                ),
                _ => assert!(false),
            }
            match a2 {
                v2::Addresses::IPv6(a) => assert!(
                    a.source_address == *x.ip()
                        && a.source_port == x.port()
                        && a.destination_address == *y.ip()
                        && a.destination_port == y.port()
                ),
                _ => assert!(false),
            }
            kani::cover!(x.ip() != y.ip() && x.port() != y.port(), "v6/v6 distinct");
        }
        _ => {
            assert!(matches!(a1, v1::Addresses::Unknown));
            assert!(matches!(a2, v2::Addresses::Unspecified));
            kani::cover!(ks && !kd, "v4 source, v6 destination");
            kani::cover!(!ks && kd, "v6 source, v4 destination");
        }
    }
}
