//! C02 — v2 parser accepts exactly the well-formed headers and decodes faithfully.
use crate::refmodel::*;
use ppp::v2::{Addresses, Command, Header, ParseError, Protocol, Version};

const N: usize = 240;

/// All 2^(8*240) buffers, every n <= 240: Ok <=> reference Ok, fields decoded
/// from the big-endian reads of the buffer, header bytes = buf[..16+len].
#[kani::proof]
#[kani::unwind(14)]
pub(crate) fn c02_accept_iff_wellformed_240() {
    let buf: [u8; N] = kani::any();
    let n: usize = kani::any();
    kani::assume(n <= N);
    let r = Header::try_from(&buf[..n]);
    let want = ref_v2(&buf, n);
    match (&r, want) {
        (
            Ok(h),
            RefV2::Ok {
                cmd,
                fam,
                proto,
                len,
            },
        ) => {
            assert!(h.version == Version::Two);
            assert!(h.command as u8 == cmd);
            assert!(h.protocol as u8 == proto);
            let bytes: &[u8] = h.header.as_ref();
            assert!(bytes.len() == 16 + len);
            assert!(bytes.as_ptr() == buf.as_ptr());
            let i: usize = kani::any();
            kani::assume(i < 16 + len);
            assert!(bytes[i] == buf[i]);
            match h.addresses {
                Addresses::Unspecified => {
                    assert!(fam == 0);
                    kani::cover!(true, "fam0 accepted");
                }
                Addresses::IPv4(a) => {
                    assert!(fam == 1);
                    let s = a.source_address.octets();
                    let d = a.destination_address.octets();
                    assert!(
                        s[0] == buf[16] && s[1] == buf[17] && s[2] == buf[18] && s[3] == buf[19]
                    );
                    assert!(
                        d[0] == buf[20] && d[1] == buf[21] && d[2] == buf[22] && d[3] == buf[23]
                    );
                    assert!(a.source_port == be16(buf[24], buf[25]));
                    assert!(a.destination_port == be16(buf[26], buf[27]));
                    kani::cover!(true, "fam1 accepted");
                }
                Addresses::IPv6(a) => {
                    assert!(fam == 2);
                    let s = a.source_address.octets();
                    let d = a.destination_address.octets();
                    let j: usize = kani::any();
                    kani::assume(j < 16);
                    assert!(s[j] == buf[16 + j]);
                    assert!(d[j] == buf[32 + j]);
                    assert!(a.source_port == be16(buf[48], buf[49]));
                    assert!(a.destination_port == be16(buf[50], buf[51]));
                    kani::cover!(true, "fam2 accepted");
                }
                Addresses::Unix(u) => {
                    assert!(fam == 3);
                    let j: usize = kani::any();
                    kani::assume(j < 108);
                    assert!(u.source[j] == buf[16 + j]);
                    assert!(u.destination[j] == buf[124 + j]);
                    kani::cover!(true, "fam3 accepted");
                }
            }
            kani::cover!(cmd == 0, "LOCAL accepted");
            kani::cover!(cmd == 1, "PROXY accepted");
            kani::cover!(proto == 2, "DGRAM accepted");
            kani::cover!(
                len > fam_size(fam) && fam == 1,
                "trailing TLV bytes accepted"
            );
        }
        (Ok(_), _) => assert!(false, "accepted a header the reference rejects"),
        (Err(_), RefV2::Ok { .. }) => assert!(false, "rejected a well-formed header"),
        (Err(_), _) => {
            kani::cover!(true, "rejected");
        }
    }
    core::mem::forget(r);
}

/// Declared lengths up to 65535 being *accepted* and sliced correctly: 65 551-byte buffer whose first 52
/// bytes are symbolic and whose tail is constant zero (the parser never reads the tail), families 0-2,
/// symbolic input length.
#[kani::proof]
#[kani::unwind(54)]
pub(crate) fn c02_long_declared_lengths_65551() {
    const N: usize = 65551;
    let head: [u8; 52] = kani::any();
    kani::assume(head[13] >> 4 != 3);
    let mut buf = [0u8; N];
    let mut i = 0;
    while i < 52 {
        buf[i] = head[i];
        i += 1;
    }
    let n: usize = kani::any();
    kani::assume(n <= N);
    let r = Header::try_from(&buf[..n]);
    let want = ref_v2(&buf, n);
    match (&r, want) {
        (
            Ok(h),
            RefV2::Ok {
                cmd,
                fam,
                proto,
                len,
            },
        ) => {
            assert!(h.command as u8 == cmd && h.protocol as u8 == proto);
            let bytes: &[u8] = h.header.as_ref();
            assert!(bytes.len() == 16 + len);
            assert!(bytes.as_ptr() == buf.as_ptr());
            match h.addresses {
                Addresses::Unspecified => assert!(fam == 0),
                Addresses::IPv4(a) => {
                    assert!(fam == 1);
                    assert!(
                        a.source_port == be16(buf[24], buf[25])
                            && a.destination_port == be16(buf[26], buf[27])
                    );
                }
                Addresses::IPv6(a) => {
                    assert!(fam == 2);
                    assert!(
                        a.source_port == be16(buf[48], buf[49])
                            && a.destination_port == be16(buf[50], buf[51])
                    );
                }
                Addresses::Unix(_) => assert!(false),
            }
            kani::cover!(len == 65535, "declared length 65535 accepted");
            kani::cover!(
                len > 256 && len < 65535,
                "declared length using the high byte accepted"
            );
        }
        (Ok(_), _) => assert!(false, "accepted a header the reference rejects"),
        (Err(_), RefV2::Ok { .. }) => assert!(false, "rejected a well-formed header"),
        (Err(ParseError::Partial(have, need)), RefV2::Partial(a, b)) => {
            assert!(*have == a && *need == b);
            kani::cover!(
                b == 65535 && a == 65534,
                "one byte short of a 65535-byte payload"
            );
        }
        (Err(_), _) => {}
    }
    core::mem::forget(r);
}
