//! C07 — v2 builder emits the specified wire format and its output parses back unchanged.
use crate::refmodel::SIG;
use ppp::v2::{Addresses, Builder, Command, Header, IPv4, IPv6, Protocol, Type, Unix, Version};
use std::mem::forget;
use std::net::{Ipv4Addr, Ipv6Addr};

pub fn any_command() -> (Command, u8) {
    if kani::any() {
        (Command::Proxy, 1)
    } else {
        (Command::Local, 0)
    }
}
pub fn any_protocol() -> (Protocol, u8) {
    let x: u8 = kani::any();
    match x % 3 {
        0 => (Protocol::Unspecified, 0),
        1 => (Protocol::Stream, 1),
        _ => (Protocol::Datagram, 2),
    }
}

pub const MAXOUT: usize = 320;

/// Reference encoder: writes the expected wire bytes into `exp`, returns the total length.
/// `ab` = address block bytes (already network order), then TLVs (type, value).
pub fn ref_encode<const AB: usize, const L1: usize, const L2: usize>(
    exp: &mut [u8; MAXOUT],
    cmd: u8,
    fam: u8,
    proto: u8,
    ab: &[u8; AB],
    ntlv: usize,
    t1: u8,
    v1: &[u8; L1],
    t2: u8,
    v2: &[u8; L2],
) -> usize {
    let mut k = 0;
    while k < 12 {
        exp[k] = SIG[k];
        k += 1;
    }
    exp[12] = 0x20 | cmd;
    exp[13] = (fam << 4) | proto;
    let mut total = AB;
    if ntlv >= 1 {
        total += 3 + L1;
    }
    if ntlv >= 2 {
        total += 3 + L2;
    }
    exp[14] = (total >> 8) as u8;
    exp[15] = (total & 0xFF) as u8;
    let mut p = 16;
    let mut i = 0;
    while i < AB {
        exp[p] = ab[i];
        p += 1;
        i += 1;
    }
    if ntlv >= 1 {
        exp[p] = t1;
        exp[p + 1] = (L1 >> 8) as u8;
        exp[p + 2] = (L1 & 0xFF) as u8;
        p += 3;
        let mut i = 0;
        while i < L1 {
            exp[p] = v1[i];
            p += 1;
            i += 1;
        }
    }
    if ntlv >= 2 {
        exp[p] = t2;
        exp[p + 1] = (L2 >> 8) as u8;
        exp[p + 2] = (L2 & 0xFF) as u8;
        p += 3;
        let mut i = 0;
        while i < L2 {
            exp[p] = v2[i];
            p += 1;
            i += 1;
        }
    }
    p
}

fn same_addresses(a: &Addresses, b: &Addresses) -> bool {
    match (a, b) {
        (Addresses::Unspecified, Addresses::Unspecified) => true,
        (Addresses::IPv4(x), Addresses::IPv4(y)) => {
            x.source_address.octets() == y.source_address.octets()
                && x.destination_address.octets() == y.destination_address.octets()
                && x.source_port == y.source_port
                && x.destination_port == y.destination_port
        }
        (Addresses::IPv6(x), Addresses::IPv6(y)) => {
            let j: usize = kani::any();
            kani::assume(j < 16);
            x.source_address.octets()[j] == y.source_address.octets()[j]
                && x.destination_address.octets()[j] == y.destination_address.octets()[j]
                && x.source_port == y.source_port
                && x.destination_port == y.destination_port
        }
        (Addresses::Unix(x), Addresses::Unix(y)) => {
            let j: usize = kani::any();
            kani::assume(j < 108);
            x.source[j] == y.source[j] && x.destination[j] == y.destination[j]
        }
        _ => false,
    }
}

/// Build with_addresses + `ntlv` TLVs, compare with the reference bytes, parse back.
fn run<const AB: usize, const L1: usize, const L2: usize>(
    fam: u8,
    addrs: Addresses,
    ab: [u8; AB],
    ntlv: usize,
) {
    let (cmd, cmd_code) = any_command();
    let (proto, proto_code) = any_protocol();
    let t1: u8 = kani::any();
    let t2: u8 = kani::any();
    let v1: [u8; L1] = kani::any();
    let v2: [u8; L2] = kani::any();
    let mut b = Builder::with_addresses(Version::Two | cmd, proto, addrs);
    if ntlv >= 1 {
        match b.write_tlv(t1, &v1[..]) {
            Ok(nb) => b = nb,
            Err(e) => {
                forget(e);
                assert!(false, "write_tlv failed");
                return;
            }
        }
    }
    if ntlv >= 2 {
        match b.write_tlv(t2, &v2[..]) {
            Ok(nb) => b = nb,
            Err(e) => {
                forget(e);
                assert!(false, "write_tlv failed");
                return;
            }
        }
    }
    let out = match b.build() {
        Ok(o) => o,
        Err(e) => {
            forget(e);
            assert!(false, "build failed");
            return;
        }
    };
    let mut exp = [0u8; MAXOUT];
    let total = ref_encode(
        &mut exp, cmd_code, fam, proto_code, &ab, ntlv, t1, &v1, t2, &v2,
    );
    assert!(out.len() == total);
    if let Some(i) = crate::any_below(total) {
        assert!(out[i] == exp[i]);
    }
    // parse back
    let r = Header::try_from(out.as_slice());
    match &r {
        Ok(h) => {
            assert!(h.version == Version::Two);
            assert!(h.command == cmd);
            assert!(h.protocol == proto);
            assert!(same_addresses(&h.addresses, &addrs));
            assert!(h.as_bytes().len() == total && h.as_bytes().as_ptr() == out.as_ptr());
            if fam != 0 {
                // same TLV sequence in the same order, then the end
                let mut it = h.tlvs();
                if ntlv >= 1 {
                    let x = it.next();
                    match &x {
                        Some(Ok(t)) => {
                            assert!(t.kind == t1 && t.value.len() == L1);
                            if let Some(i) = crate::any_below(L1) {
                                assert!(t.value[i] == v1[i]);
                            }
                        }
                        _ => assert!(false, "first TLV lost"),
                    }
                    forget(x);
                }
                if ntlv >= 2 {
                    let x = it.next();
                    match &x {
                        Some(Ok(t)) => {
                            assert!(t.kind == t2 && t.value.len() == L2);
                            if let Some(i) = crate::any_below(L2) {
                                assert!(t.value[i] == v2[i]);
                            }
                        }
                        _ => assert!(false, "second TLV lost"),
                    }
                    forget(x);
                }
                let end = it.next();
                assert!(end.is_none());
                forget(end);
            }
            kani::cover!(cmd_code == 0 && proto_code == 2, "LOCAL / DGRAM");
            kani::cover!(cmd_code == 1 && proto_code == 1, "PROXY / STREAM");
        }
        Err(_) => assert!(false, "built header does not parse"),
    }
    forget(r);
    forget(out);
}

fn any_ipv4() -> (Addresses, [u8; 12]) {
    let ab: [u8; 12] = kani::any();
    let a = IPv4::new(
        Ipv4Addr::new(ab[0], ab[1], ab[2], ab[3]),
        Ipv4Addr::new(ab[4], ab[5], ab[6], ab[7]),
        ((ab[8] as u16) << 8) | ab[9] as u16,
        ((ab[10] as u16) << 8) | ab[11] as u16,
    );
    (Addresses::IPv4(a), ab)
}
fn any_ipv6() -> (Addresses, [u8; 36]) {
    let ab: [u8; 36] = kani::any();
    let mut s = [0u8; 16];
    let mut d = [0u8; 16];
    let mut i = 0;
    while i < 16 {
        s[i] = ab[i];
        d[i] = ab[16 + i];
        i += 1;
    }
    let a = IPv6::new(
        Ipv6Addr::from(s),
        Ipv6Addr::from(d),
        ((ab[32] as u16) << 8) | ab[33] as u16,
        ((ab[34] as u16) << 8) | ab[35] as u16,
    );
    (Addresses::IPv6(a), ab)
}
fn any_unix() -> (Addresses, [u8; 216]) {
    let ab: [u8; 216] = kani::any();
    let mut s = [0u8; 108];
    let mut d = [0u8; 108];
    let mut i = 0;
    while i < 108 {
        s[i] = ab[i];
        d[i] = ab[108 + i];
        i += 1;
    }
    (Addresses::Unix(Unix::new(s, d)), ab)
}

macro_rules! c07 {
    ($name:ident, unspec, $n:expr, $l1:expr, $l2:expr, $unw:expr) => {
        #[kani::proof]
        #[kani::unwind($unw)]
        pub(crate) fn $name() {
            run::<0, $l1, $l2>(0, Addresses::Unspecified, [], $n);
        }
    };
    ($name:ident, ipv4, $n:expr, $l1:expr, $l2:expr, $unw:expr) => {
        #[kani::proof]
        #[kani::unwind($unw)]
        pub(crate) fn $name() {
            let (a, ab) = any_ipv4();
            run::<12, $l1, $l2>(1, a, ab, $n);
        }
    };
    ($name:ident, ipv6, $n:expr, $l1:expr, $l2:expr, $unw:expr) => {
        #[kani::proof]
        #[kani::unwind($unw)]
        pub(crate) fn $name() {
            let (a, ab) = any_ipv6();
            run::<36, $l1, $l2>(2, a, ab, $n);
        }
    };
    ($name:ident, unix, $n:expr, $l1:expr, $l2:expr, $unw:expr) => {
        #[kani::proof]
        #[kani::unwind($unw)]
        pub(crate) fn $name() {
            let (a, ab) = any_unix();
            run::<216, $l1, $l2>(3, a, ab, $n);
        }
    };
}

// quick: every family x {0, 1, 2} TLVs with value lengths from {0, 1, 3}
c07!(c07_unspec_0tlv, unspec, 0, 0, 0, 14);
c07!(c07_unspec_1tlv_3, unspec, 1, 3, 0, 14);
c07!(c07_ipv4_0tlv, ipv4, 0, 0, 0, 14);
c07!(c07_ipv4_1tlv_1, ipv4, 1, 1, 0, 14);
c07!(c07_ipv4_2tlv_0_3, ipv4, 2, 0, 3, 14);
c07!(c07_ipv4_2tlv_3_1, ipv4, 2, 3, 1, 14);
c07!(c07_ipv6_0tlv, ipv6, 0, 0, 0, 38);
c07!(c07_ipv6_2tlv_1_3, ipv6, 2, 1, 3, 38);
c07!(c07_unix_0tlv, unix, 0, 0, 0, 218);
c07!(c07_unix_1tlv_3, unix, 1, 3, 0, 218);
// thorough: more value lengths {2, 5, 8}, longer values
c07!(c07_ipv4_2tlv_2_5, ipv4, 2, 2, 5, 14);
c07!(c07_ipv4_2tlv_8_8, ipv4, 2, 8, 8, 14);
c07!(c07_ipv4_1tlv_40, ipv4, 1, 40, 0, 42);
c07!(c07_ipv6_1tlv_5, ipv6, 1, 5, 0, 38);
c07!(c07_ipv6_2tlv_8_2, ipv6, 2, 8, 2, 38);
c07!(c07_unix_2tlv_1_0, unix, 2, 1, 0, 218);
c07!(c07_unspec_2tlv_1_1, unspec, 2, 1, 1, 14);

/// The named TLV types carry their registered codes (spec section 2.2.x), both through
/// `u8::from(Type)` and on the wire through `write_tlv(Type::X, ..)`.
#[kani::proof]
#[kani::unwind(14)]
pub(crate) fn c07_registered_type_codes() {
    let sel: u8 = kani::any();
    kani::assume(sel < 12);
    let (ty, code) = match sel {
        0 => (Type::ALPN, 0x01u8),
        1 => (Type::Authority, 0x02),
        2 => (Type::CRC32C, 0x03),
        3 => (Type::NoOp, 0x04),
        4 => (Type::UniqueId, 0x05),
        5 => (Type::SSL, 0x20),
        6 => (Type::SSLVersion, 0x21),
        7 => (Type::SSLCommonName, 0x22),
        8 => (Type::SSLCipher, 0x23),
        9 => (Type::SSLSignatureAlgorithm, 0x24),
        10 => (Type::SSLKeyAlgorithm, 0x25),
        _ => (Type::NetworkNamespace, 0x30),
    };
    assert!(u8::from(ty) == code);
    let v: u8 = kani::any();
    let val = [v];
    let r = Builder::new(0x21, 0x00).write_tlv(ty, &val[..]);
    match r {
        Ok(b) => match b.build() {
            Ok(out) => {
                assert!(out.len() == 20);
                assert!(out[16] == code && out[17] == 0 && out[18] == 1 && out[19] == v);
                assert!(out[14] == 0 && out[15] == 4);
                kani::cover!(sel == 11, "NetworkNamespace");
                kani::cover!(sel == 5, "SSL");
                forget(out);
            }
            Err(e) => {
                forget(e);
                assert!(false);
            }
        },
        Err(e) => {
            forget(e);
            assert!(false);
        }
    }
}

/// Unix address block with *sparse* symbolic content: both 108-byte paths are a constant fill with three
/// symbolic bytes each (first, middle, last position), so that content-dependent encoders (e.g. one that stops
/// at a NUL) are explored cheaply. Built bytes against the reference, then parsed back.
#[kani::proof]
#[kani::unwind(14)]
pub(crate) fn c07_unix_sparse_content() {
    let s3: [u8; 3] = kani::any();
    let d3: [u8; 3] = kani::any();
    let mut s = [0x41u8; 108];
    let mut d = [0x42u8; 108];
    s[0] = s3[0];
    s[53] = s3[1];
    s[107] = s3[2];
    d[0] = d3[0];
    d[54] = d3[1];
    d[107] = d3[2];
    let (cmd, cmd_code) = any_command();
    let (proto, proto_code) = any_protocol();
    let b = Builder::with_addresses(Version::Two | cmd, proto, Addresses::Unix(Unix::new(s, d)));
    let out = match b.build() {
        Ok(o) => o,
        Err(e) => {
            forget(e);
            assert!(false, "build failed");
            return;
        }
    };
    assert!(out.len() == 16 + 216);
    assert!(out[12] == 0x20 | cmd_code && out[13] == 0x30 | proto_code);
    assert!(out[14] == 0 && out[15] == 216);
    if let Some(i) = crate::any_below(108) {
        assert!(out[16 + i] == s[i]);
        assert!(out[124 + i] == d[i]);
    }
    let r = Header::try_from(out.as_slice());
    match &r {
        Ok(h) => match h.addresses {
            Addresses::Unix(u) => {
                if let Some(i) = crate::any_below(108) {
                    assert!(u.source[i] == s[i] && u.destination[i] == d[i]);
                }
                kani::cover!(
                    s3[0] == 0 && s3[1] != 0,
                    "abstract-socket style path (leading NUL)"
                );
                kani::cover!(d3[1] == 0 && d3[2] != 0, "non-zero byte after a NUL");
            }
            _ => assert!(false),
        },
        Err(_) => assert!(false, "built header does not parse"),
    }
    forget(r);
    forget(out);
}
