//! C20 — every encodable value appends exactly its wire encoding and reports its size.
use ppp::v2::{
    Addresses, IPv4, IPv6, Type, TypeLengthValue, TypeLengthValues, Unix, WriteToHeader, Writer,
};
use std::mem::forget;
use std::net::{Ipv4Addr, Ipv6Addr};

/// writer pre-filled with three symbolic bytes
fn prefilled(pre: &[u8; 3]) -> Writer {
    let mut v = Vec::with_capacity(3);
    v.push(pre[0]);
    v.push(pre[1]);
    v.push(pre[2]);
    Writer::from(v)
}

macro_rules! int_harness {
    ($name:ident, $t:ty, $ut:ty, $n:expr) => {
        #[kani::proof]
        #[kani::unwind(20)]
        pub(crate) fn $name() {
            let x: $t = kani::any();
            let pre: [u8; 3] = kani::any();
            let mut w = prefilled(&pre);
            let r = x.write_to(&mut w);
            assert!(matches!(&r, Ok(k) if *k == $n));
            forget(r);
            let out = w.finish();
            assert!(out.len() == 3 + $n);
            assert!(out[0] == pre[0] && out[1] == pre[1] && out[2] == pre[2]);
            // big-endian at natural width, independent of to_be_bytes
            let ux = x as $ut as u128;
            let i: usize = kani::any();
            kani::assume(i < $n);
            let want = ((ux >> (8 * ($n - 1 - i))) & 0xFF) as u8;
            assert!(out[3 + i] == want);
            // to_bytes gives the same encoding (empty writer)
            let tb = x.to_bytes();
            match &tb {
                Ok(b) => {
                    assert!(b.len() == $n);
                    assert!(b[i] == want);
                }
                Err(_) => assert!(false),
            }
            // through a reference (blanket impl for &T)
            let mut w2 = prefilled(&pre);
            let r2 = (&x).write_to(&mut w2);
            assert!(matches!(&r2, Ok(k) if *k == $n));
            forget(r2);
            let out2 = w2.finish();
            assert!(out2.len() == 3 + $n && out2[3 + i] == want);
            kani::cover!(i == 0 && want != 0, "most significant byte first");
            forget(tb);
            forget(out);
            forget(out2);
        }
    };
}
int_harness!(c20_int_u8, u8, u8, 1);
int_harness!(c20_int_u16, u16, u16, 2);
int_harness!(c20_int_u32, u32, u32, 4);
int_harness!(c20_int_u64, u64, u64, 8);
int_harness!(c20_int_u128, u128, u128, 16);
int_harness!(c20_int_usize, usize, usize, 8);
int_harness!(c20_int_i8, i8, u8, 1);
int_harness!(c20_int_i16, i16, u16, 2);
int_harness!(c20_int_i32, i32, u32, 4);
int_harness!(c20_int_i64, i64, u64, 8);
int_harness!(c20_int_i128, i128, u128, 16);
int_harness!(c20_int_isize, isize, usize, 8);

#[kani::proof]
#[kani::unwind(20)]
pub(crate) fn c20_addresses_ipv4() {
    let s: [u8; 4] = kani::any();
    let d: [u8; 4] = kani::any();
    let (sp, dp): (u16, u16) = (kani::any(), kani::any());
    let a = Addresses::IPv4(IPv4::new(Ipv4Addr::from(s), Ipv4Addr::from(d), sp, dp));
    let pre: [u8; 3] = kani::any();
    let mut w = prefilled(&pre);
    let r = a.write_to(&mut w);
    assert!(matches!(&r, Ok(12)));
    forget(r);
    let out = w.finish();
    assert!(out.len() == 15);
    assert!(out[0] == pre[0] && out[1] == pre[1] && out[2] == pre[2]);
    assert!(out[3] == s[0] && out[4] == s[1] && out[5] == s[2] && out[6] == s[3]);
    assert!(out[7] == d[0] && out[8] == d[1] && out[9] == d[2] && out[10] == d[3]);
    assert!(out[11] == (sp >> 8) as u8 && out[12] == (sp & 0xFF) as u8);
    assert!(out[13] == (dp >> 8) as u8 && out[14] == (dp & 0xFF) as u8);
    let tb = a.to_bytes();
    match &tb {
        Ok(b) => {
            assert!(b.len() == 12);
            let i: usize = kani::any();
            kani::assume(i < 12);
            assert!(b[i] == out[3 + i]);
        }
        Err(_) => assert!(false),
    }
    kani::cover!(sp != dp && s != d, "distinct endpoints");
    forget(tb);
    forget(out);
}

#[kani::proof]
#[kani::unwind(20)]
pub(crate) fn c20_addresses_ipv6() {
    let s: [u8; 16] = kani::any();
    let d: [u8; 16] = kani::any();
    let (sp, dp): (u16, u16) = (kani::any(), kani::any());
    let a = Addresses::IPv6(IPv6::new(Ipv6Addr::from(s), Ipv6Addr::from(d), sp, dp));
    let pre: [u8; 3] = kani::any();
    let mut w = prefilled(&pre);
    let r = a.write_to(&mut w);
    assert!(matches!(&r, Ok(36)));
    forget(r);
    let out = w.finish();
    assert!(out.len() == 39);
    assert!(out[0] == pre[0] && out[1] == pre[1] && out[2] == pre[2]);
    let i: usize = kani::any();
    kani::assume(i < 16);
    assert!(out[3 + i] == s[i]);
    assert!(out[19 + i] == d[i]);
    assert!(out[35] == (sp >> 8) as u8 && out[36] == (sp & 0xFF) as u8);
    assert!(out[37] == (dp >> 8) as u8 && out[38] == (dp & 0xFF) as u8);
    let tb = a.to_bytes();
    match &tb {
        Ok(b) => {
            assert!(b.len() == 36);
            let k: usize = kani::any();
            kani::assume(k < 36);
            assert!(b[k] == out[3 + k]);
        }
        Err(_) => assert!(false),
    }
    kani::cover!(sp != dp && s[i] != d[i], "distinct endpoints");
    forget(tb);
    forget(out);
}

#[kani::proof]
#[kani::unwind(20)]
pub(crate) fn c20_addresses_unix_and_unspecified() {
    let s: [u8; 108] = kani::any();
    let d: [u8; 108] = kani::any();
    let a = Addresses::Unix(Unix::new(s, d));
    let pre: [u8; 3] = kani::any();
    let mut w = prefilled(&pre);
    let r = a.write_to(&mut w);
    assert!(matches!(&r, Ok(216)));
    forget(r);
    let out = w.finish();
    assert!(out.len() == 219);
    assert!(out[0] == pre[0] && out[1] == pre[1] && out[2] == pre[2]);
    let i: usize = kani::any();
    kani::assume(i < 108);
    assert!(out[3 + i] == s[i]);
    assert!(out[111 + i] == d[i]);
    kani::cover!(s[i] != d[i], "distinct paths");
    forget(out);
    // unspecified: nothing appended, size 0
    let mut w0 = prefilled(&pre);
    let r0 = Addresses::Unspecified.write_to(&mut w0);
    assert!(matches!(&r0, Ok(0)));
    forget(r0);
    let out0 = w0.finish();
    assert!(out0.len() == 3 && out0[0] == pre[0] && out0[2] == pre[2]);
    forget(out0);
}

/// TLV, (u8, &[u8]) and (Type, &[u8]) with a value of literal length $len, symbolic content.
macro_rules! tlv_harness {
    ($name:ident, $len:expr) => {
        #[kani::proof]
        #[kani::unwind(20)]
        pub(crate) fn $name() {
            const L: usize = $len;
            let val: [u8; L] = kani::any();
            let kind: u8 = kani::any();
            let pre: [u8; 3] = kani::any();
            let check = |out: &Vec<u8>, kind: u8| {
                assert!(out.len() == 3 + 3 + L);
                assert!(out[0] == pre[0] && out[1] == pre[1] && out[2] == pre[2]);
                assert!(out[3] == kind);
                assert!(out[4] == (L >> 8) as u8 && out[5] == (L & 0xFF) as u8);
                if let Some(i) = crate::any_below(L) {
                    assert!(out[6 + i] == val[i]);
                }
            };
            // TypeLengthValue
            let tlv = TypeLengthValue::new(kind, &val[..]);
            let mut w = prefilled(&pre);
            let r = tlv.write_to(&mut w);
            assert!(matches!(&r, Ok(k) if *k == 3 + L));
            forget(r);
            let out = w.finish();
            check(&out, kind);
            // (u8, &[u8]) pair encodes identically
            let mut w2 = prefilled(&pre);
            let r2 = (kind, &val[..]).write_to(&mut w2);
            assert!(matches!(&r2, Ok(k) if *k == 3 + L));
            forget(r2);
            let out2 = w2.finish();
            check(&out2, kind);
            // (Type, &[u8]) with a named type: registered code
            let mut w3 = prefilled(&pre);
            let r3 = (Type::Authority, &val[..]).write_to(&mut w3);
            assert!(matches!(&r3, Ok(k) if *k == 3 + L));
            forget(r3);
            let out3 = w3.finish();
            check(&out3, 0x02);
            // to_bytes
            let tb = tlv.to_bytes();
            match &tb {
                Ok(b) => {
                    assert!(b.len() == 3 + L);
                    assert!(b[0] == kind && b[1] == (L >> 8) as u8 && b[2] == (L & 0xFF) as u8);
                    if let Some(i) = crate::any_below(L) {
                        assert!(b[3 + i] == val[i]);
                    }
                }
                Err(_) => assert!(false),
            }
            kani::cover!(kind == 0xFF, "arbitrary type byte");
            forget(tb);
            forget(out);
            forget(out2);
            forget(out3);
            forget(tlv);
        }
    };
}
tlv_harness!(c20_tlv_len0, 0);
tlv_harness!(c20_tlv_len1, 1);
tlv_harness!(c20_tlv_len3, 3);
tlv_harness!(c20_tlv_len300, 300);

/// [u8], TypeLengthValues (raw section) and Type, each after a 3-byte prefix.
#[kani::proof]
#[kani::unwind(20)]
pub(crate) fn c20_slice_section_type() {
    let val: [u8; 5] = kani::any();
    let pre: [u8; 3] = kani::any();
    // [u8]
    let mut w = prefilled(&pre);
    let r = val[..].write_to(&mut w);
    assert!(matches!(&r, Ok(5)));
    forget(r);
    let out = w.finish();
    assert!(out.len() == 8);
    assert!(out[0] == pre[0] && out[1] == pre[1] && out[2] == pre[2]);
    assert!(
        out[3] == val[0]
            && out[4] == val[1]
            && out[5] == val[2]
            && out[6] == val[3]
            && out[7] == val[4]
    );
    forget(out);
    // TypeLengthValues: written verbatim, whether or not it is well formed
    let sec = TypeLengthValues::from(&val[..]);
    let mut w2 = prefilled(&pre);
    let r2 = sec.write_to(&mut w2);
    assert!(matches!(&r2, Ok(5)));
    forget(r2);
    let out2 = w2.finish();
    assert!(out2.len() == 8);
    assert!(
        out2[2] == pre[2]
            && out2[3] == val[0]
            && out2[4] == val[1]
            && out2[5] == val[2]
            && out2[6] == val[3]
            && out2[7] == val[4]
    );
    forget(out2);
    // Type: one byte, its registered code
    let mut w3 = prefilled(&pre);
    let r3 = Type::SSLCipher.write_to(&mut w3);
    assert!(matches!(&r3, Ok(1)));
    forget(r3);
    let out3 = w3.finish();
    assert!(out3.len() == 4 && out3[2] == pre[2] && out3[3] == 0x23);
    forget(out3);
    // empty slice: nothing appended
    let mut w4 = prefilled(&pre);
    let r4 = val[..0].write_to(&mut w4);
    assert!(matches!(&r4, Ok(0)));
    forget(r4);
    let out4 = w4.finish();
    assert!(out4.len() == 3);
    forget(out4);
    kani::cover!(val[0] != val[4], "non-uniform content");
}

static BIG: [u8; 70000] = [0u8; 70000];

/// A value too large for its 16-bit length is refused without writing anything:
/// slice / TLV / pair of literal length $n > 65535 (static zero content).
macro_rules! oversize_refused {
    ($name:ident, $n:expr) => {
        #[kani::proof]
        #[kani::unwind(20)]
        pub(crate) fn $name() {
            let pre: [u8; 3] = kani::any();
            let big = &BIG[..$n];
            let mut w = prefilled(&pre);
            let r = big.write_to(&mut w);
            assert!(r.is_err());
            forget(r);
            let r = TypeLengthValue::new(7u8, big).write_to(&mut w);
            assert!(r.is_err());
            forget(r);
            let r = (9u8, big).write_to(&mut w);
            assert!(r.is_err());
            forget(r);
            let out = w.finish();
            assert!(out.len() == 3 && out[0] == pre[0] && out[1] == pre[1] && out[2] == pre[2]);
            // to_bytes on an oversized value is refused as well (same encoding rule, empty writer)
            let tb = big.to_bytes();
            assert!(tb.is_err());
            forget(tb);
            let tb = TypeLengthValue::new(7u8, big).to_bytes();
            assert!(tb.is_err());
            forget(tb);
            kani::cover!(true, "oversize value refused");
            forget(out);
        }
    };
}
oversize_refused!(c20_oversize_refused_65536, 65536);
oversize_refused!(c20_oversize_refused_70000, 70000);

/// Symbolic length n in (65535, 70000] for the plain slice only.
#[kani::proof]
#[kani::unwind(20)]
pub(crate) fn c20_oversize_slice_refused_symbolic_len() {
    let n: usize = kani::any();
    kani::assume(n > 65535 && n <= 70000);
    let pre: [u8; 3] = kani::any();
    let mut w = prefilled(&pre);
    let r = BIG[..n].write_to(&mut w);
    assert!(r.is_err());
    forget(r);
    let out = w.finish();
    assert!(out.len() == 3 && out[0] == pre[0]);
    kani::cover!(n == 65536, "smallest oversize value");
    forget(out);
}
