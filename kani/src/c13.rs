//! C13 — re-encoding a parsed v2 header from its parts reproduces it byte for byte.
//! One harness instance per *literal* control-byte pair and total length (so that every
//! Vec copy has a size that is concrete for CBMC's constant propagation); all address
//! and TLV contents are symbolic.
use crate::refmodel::SIG;
use ppp::v2::{Builder, Header, TypeLengthValue, TypeLengthValues};
use std::mem::forget;

fn same(out: &Vec<u8>, orig: &[u8]) {
    assert!(out.len() == orig.len());
    if let Some(i) = crate::any_below(orig.len()) {
        assert!(out[i] == orig[i]);
    }
}

macro_rules! unwrap_io {
    ($e:expr) => {
        match $e {
            Ok(x) => x,
            Err(e) => {
                forget(e);
                assert!(false, "builder call failed");
                return;
            }
        }
    };
}

/// $vc, $fp: literal control bytes; $ab: family block size; $tl: TLV section size;
/// $wf: whether the section is forced well-formed (one TLV of $tl - 3 bytes).
macro_rules! c13 {
    ($name:ident, $vc:expr, $fp:expr, $ab:expr, $tl:expr, $wf:expr, $unw:expr) => {
        #[kani::proof]
        #[kani::unwind($unw)]
        pub(crate) fn $name() {
            const LEN: usize = 16 + $ab + $tl;
            let mut buf: [u8; LEN] = kani::any();
            let mut k = 0;
            while k < 12 {
                buf[k] = SIG[k];
                k += 1;
            }
            buf[12] = $vc;
            buf[13] = $fp;
            buf[14] = ((LEN - 16) >> 8) as u8;
            buf[15] = ((LEN - 16) & 0xFF) as u8;
            if $wf && $tl >= 3 {
                // type byte symbolic, literal length = rest of the section
                buf[16 + $ab + 1] = (($tl - 3) >> 8) as u8;
                buf[16 + $ab + 2] = (($tl - 3) & 0xFF) as u8;
            }
            let r = Header::try_from(&buf[..]);
            let h = match &r {
                Ok(h) => h,
                Err(_) => {
                    assert!(false, "well-formed header rejected");
                    return;
                }
            };
            let orig = h.as_bytes();
            assert!(orig.len() == LEN);
            // The views are read element-wise into literal-size local arrays before they are
            // handed to the builder: CBMC cannot constant-propagate the pointer of the
            // niche-encoded Cow<[u8]>, and a memcpy from such a pointer does not finish.
            const AV: usize = if $ab == 0 { $tl } else { $ab }; // address view size
            const TV: usize = if $ab == 0 { 0 } else { $tl }; // TLV view size
            let av = h.address_bytes();
            let tv = h.tlv_bytes();
            assert!(av.len() == AV && tv.len() == TV);
            let mut a = [0u8; AV];
            let mut i = 0;
            while i < AV {
                a[i] = av[i];
                i += 1;
            }
            let mut t = [0u8; TV];
            let mut i = 0;
            while i < TV {
                t[i] = tv[i];
                i += 1;
            }
            // (a) control bytes + raw address bytes + raw TLV bytes
            let b = Builder::new(buf[12], buf[13]);
            let b = unwrap_io!(b.write_payload(&a[..]));
            let b = unwrap_io!(b.write_payload(&t[..]));
            let out = unwrap_io!(b.build());
            same(&out, orig);
            forget(out);
            // (b) TLV section through the TypeLengthValues encoder
            let b = Builder::new(buf[12], buf[13]);
            let b = unwrap_io!(b.write_payload(&a[..]));
            let b = unwrap_io!(b.write_payload(TypeLengthValues::from(&t[..])));
            let out = unwrap_io!(b.build());
            same(&out, orig);
            forget(out);
            // (c) from the decoded address value (specified families); for the unspecified
            //     family there is no value to rebuild from: the whole payload is the address view
            let b = Builder::with_addresses(h.version | h.command, h.protocol, h.addresses);
            let b = if $ab > 0 {
                unwrap_io!(b.write_payload(&t[..]))
            } else {
                unwrap_io!(b.write_payload(&a[..]))
            };
            let out = unwrap_io!(b.build());
            same(&out, orig);
            forget(out);
            // (d) item by item when the section is well-formed
            if $wf && $ab > 0 && $tl >= 3 {
                let mut it = TypeLengthValues::from(&t[..]);
                let first = it.next();
                match first {
                    Some(Ok(tlv)) => {
                        // the decoded item is compared element-wise with the section bytes and an
                        // equal item over the local literal-size copy is what gets re-encoded
                        assert!(tlv.kind == t[0] && tlv.value.len() == $tl - 3);
                        if let Some(j) = crate::any_below($tl - 3) {
                            assert!(tlv.value[j] == t[3 + j]);
                        }
                        let item = TypeLengthValue::new(tlv.kind, &t[3..]);
                        forget(tlv);
                        let b = Builder::with_addresses(h.version | h.command, h.protocol, h.addresses);
                        let b = unwrap_io!(b.write_payloads([item]));
                        let out = unwrap_io!(b.build());
                        same(&out, orig);
                        forget(out);
                        // and as a (type, bytes) pair
                        let b = Builder::new(buf[12], buf[13]);
                        let b = unwrap_io!(b.write_payload(&a[..]));
                        let b = unwrap_io!(b.write_tlv(t[0], &t[3..]));
                        let out = unwrap_io!(b.build());
                        same(&out, orig);
                        forget(out);
                        kani::cover!(true, "re-encoded item by item");
                    }
                    other => {
                        forget(other);
                        assert!(false, "well-formed TLV not yielded");
                    }
                }
                let end = it.next();
                assert!(end.is_none());
                forget(end);
                // the header's own iterator yields the same first item
                let mut hit = h.tlvs();
                let hf = hit.next();
                assert!(matches!(&hf, Some(Ok(x)) if x.kind == t[0] && x.value.len() == $tl - 3));
                forget(hf);
            }
            kani::cover!(true, "re-encoded");
            forget(r);
        }
    };
}

// quick: the 4 families x one command/transport x TLV section of {0, 7} bytes
c13!(c13_unspec_0, 0x20, 0x00, 0, 0, false, 14);
c13!(c13_unspec_7, 0x21, 0x01, 0, 7, false, 14);
c13!(c13_ipv4_0, 0x21, 0x11, 12, 0, false, 14);
c13!(c13_ipv4_7_wf, 0x21, 0x12, 12, 7, true, 14);
c13!(c13_ipv6_7_wf, 0x21, 0x21, 36, 7, true, 38);
c13!(c13_unix_0, 0x21, 0x31, 216, 0, false, 218);
// thorough: more control pairs and section sizes {3, 4, 7} incl. malformed sections re-encoded raw
c13!(c13_ipv4_7_raw, 0x20, 0x10, 12, 7, false, 14);
c13!(c13_ipv4_3_wf, 0x21, 0x11, 12, 3, true, 14);
c13!(c13_ipv4_4_wf, 0x20, 0x12, 12, 4, true, 14);
c13!(c13_ipv4_2_raw, 0x21, 0x10, 12, 2, false, 14);
c13!(c13_ipv6_0, 0x20, 0x22, 36, 0, false, 38);
c13!(c13_ipv6_4_raw, 0x21, 0x20, 36, 4, false, 38);
c13!(c13_unix_7_wf, 0x21, 0x32, 216, 7, true, 218);
c13!(c13_unix_3_raw, 0x20, 0x30, 216, 3, false, 218);
c13!(c13_unspec_12, 0x21, 0x02, 0, 12, false, 14);
// thorough: a TLV value that needs the high length byte (300 bytes)
c13!(c13_ipv4_303_wf, 0x21, 0x11, 12, 303, true, 306);
