//! C16 (owned-copy half) — an owned copy of a parsed v1 header, v2 header or TLV compares
//! equal to the borrowed original, exposes the same views, and remains valid and unchanged
//! after the input buffer is overwritten. (Kani's memory-safety checks make "remains valid"
//! a checked statement: any read through a dangling borrow would be reported.)
use ppp::v1;
use ppp::v2::{Header, TypeLengthValue, TypeLengthValues};
use std::mem::forget;

#[kani::proof]
#[kani::unwind(50)]
pub(crate) fn c16_v2_header_owned_48() {
    const N: usize = 48;
    let mut buf: [u8; N] = kani::any();
    let n: usize = kani::any();
    kani::assume(n <= N);
    let saved = buf;
    let mut owned: Option<Header<'static>> = None;
    {
        let r = Header::try_from(&buf[..n]);
        if let Ok(h) = &r {
            let o = h.to_owned();
            // equal to the borrowed original (derived PartialEq over all fields, both directions)
            assert!(o == *h);
            assert!(*h == o);
            // same views
            assert!(o.len() == h.len() && o.length() == h.length());
            assert!(o.address_bytes().len() == h.address_bytes().len());
            assert!(o.tlv_bytes().len() == h.tlv_bytes().len());
            assert!(o.address_family() == h.address_family());
            if let Some(i) = crate::any_below(h.len()) {
                assert!(o.as_bytes()[i] == h.as_bytes()[i]);
            }
            // the copy does not alias the input
            assert!(o.as_bytes().as_ptr() != h.as_bytes().as_ptr());
            owned = Some(o);
        }
        forget(r);
    }
    // clobber the source buffer with fresh arbitrary bytes
    let fresh: [u8; N] = kani::any();
    buf = fresh;
    if let Some(o) = &owned {
        let k = o.len();
        assert!(k <= n);
        if let Some(i) = crate::any_below(k) {
            assert!(o.as_bytes()[i] == saved[i]);
        }
        assert!(o.length() + 16 == k);
        kani::cover!(
            k > 28 && buf[20] != saved[20],
            "owned header outlives a clobbered buffer"
        );
    }
    forget(owned);
    let _ = buf;
}

#[kani::proof]
#[kani::unwind(20)]
pub(crate) fn c16_tlv_owned_16() {
    const N: usize = 16;
    let mut buf: [u8; N] = kani::any();
    let n: usize = kani::any();
    kani::assume(n <= N);
    let saved = buf;
    let mut owned: Option<TypeLengthValue<'static>> = None;
    {
        let mut it = TypeLengthValues::from(&buf[..n]);
        let first = it.next();
        if let Some(Ok(t)) = &first {
            let o = t.to_owned();
            assert!(o == *t);
            assert!(*t == o);
            assert!(o.kind == t.kind && o.len() == t.len() && o.is_empty() == t.is_empty());
            owned = Some(o);
        }
        forget(first);
    }
    let fresh: [u8; N] = kani::any();
    buf = fresh;
    if let Some(o) = &owned {
        assert!(o.kind == saved[0]);
        let l = (saved[1] as usize) * 256 + saved[2] as usize;
        assert!(o.value.len() == l);
        if let Some(i) = crate::any_below(l) {
            assert!(o.value[i] == saved[3 + i]);
        }
        kani::cover!(l == 13, "largest value in the bound");
        kani::cover!(
            l > 0 && buf[3] != saved[3],
            "owned TLV outlives a clobbered buffer"
        );
    }
    forget(owned);
    let _ = buf;
}

#[kani::proof]
#[kani::unwind(20)]
pub(crate) fn c16_v1_header_owned_16() {
    const N: usize = 16;
    let mut buf: [u8; N] = kani::any();
    let n: usize = kani::any();
    kani::assume(n <= N);
    // ASCII text (from_utf8 itself is outside Engine K's reach; ASCII is always valid UTF-8)
    let mut i = 0;
    while i < N {
        kani::assume(buf[i] < 0x80);
        i += 1;
    }
    let saved = buf;
    let sp: u16 = kani::any();
    let dp: u16 = kani::any();
    let sa: [u8; 4] = kani::any();
    let da: [u8; 4] = kani::any();
    let addrs = v1::Addresses::new_tcp4(sa, da, sp, dp);
    let mut owned: Option<v1::Header<'static>> = None;
    {
        let text: &str = unsafe { std::str::from_utf8_unchecked(&buf[..n]) };
        let h = v1::Header::new(text, addrs);
        let o = h.to_owned();
        assert!(o == h);
        assert!(h == o);
        assert!(o.addresses == addrs);
        assert!(o.header.len() == n);
        assert!(o.protocol().len() == 4);
        owned = Some(o);
        forget(h);
    }
    let fresh: [u8; N] = kani::any();
    buf = fresh;
    if let Some(o) = &owned {
        let b = o.header.as_bytes();
        assert!(b.len() == n);
        if let Some(i) = crate::any_below(n) {
            assert!(b[i] == saved[i]);
        }
        assert!(o.addresses == addrs);
        kani::cover!(
            n == 16 && buf[5] != saved[5],
            "owned v1 header outlives a clobbered buffer"
        );
    }
    forget(owned);
    let _ = buf;
}
