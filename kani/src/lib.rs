//! Kani proof harnesses over the real `ppp` crate (path dependency on /repo).
//! One module per property; `refmodel` holds the independent reference
//! decoders / encoders the harnesses compare against.
#![allow(dead_code)]
#![allow(clippy::all)]

pub mod refmodel;

#[cfg(kani)]
mod c02;
