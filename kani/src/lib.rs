//! Kani proof harnesses over the real `ppp` crate (path dependency on /repo).
//! One module per property; `refmodel` holds the independent reference
//! decoders / encoders the harnesses compare against.
#![allow(dead_code)]
#![allow(clippy::all)]

pub mod refmodel;

/// An arbitrary index below `bound`, or None when there is none (never prunes paths,
/// unlike `kani::assume(j < bound)` placed mid-harness).
#[cfg(kani)]
pub fn any_below(bound: usize) -> Option<usize> {
    let j: usize = kani::any();
    if j < bound {
        Some(j)
    } else {
        None
    }
}

#[cfg(kani)]
mod c01;
#[cfg(kani)]
mod c02;
#[cfg(kani)]
mod c03;
#[cfg(kani)]
mod c04;
#[cfg(kani)]
mod c05;
#[cfg(kani)]
mod c07;
#[cfg(kani)]
mod c09;
#[cfg(kani)]
mod c11;
#[cfg(kani)]
mod c12;
#[cfg(kani)]
mod c13;
#[cfg(kani)]
mod c14;
#[cfg(kani)]
mod c16;
#[cfg(kani)]
mod c17;
#[cfg(kani)]
mod c19;
#[cfg(kani)]
mod c20;

#[cfg(kani)]
mod playback_gen;
