//! C09 / C10 (Engine K cross-check on the real Vec) — builder histories with a fixed
//! sequence of operation *kinds* per harness and every *value* symbolic, against a ghost
//! history interpreter: expected bytes in call order, explicit length in force.
use crate::refmodel::SIG;
use ppp::v2::{Addresses, Builder, IPv4};
use std::mem::forget;
use std::net::Ipv4Addr;

pub const GMAX: usize = 96;

pub struct Ghost {
    pub explicit: Option<u16>,
    pub exp: [u8; GMAX], // expected bytes after the 16-byte fixed part
    pub n: usize,
}

impl Ghost {
    fn push(&mut self, b: u8) {
        self.exp[self.n] = b;
        self.n += 1;
    }
}

/// one builder call of kind `op`, mirrored on the ghost
pub fn step(b: Builder, op: u8, g: &mut Ghost) -> Option<Builder> {
    match op {
        0 => {
            let l: Option<u16> = if kani::any() { Some(kani::any()) } else { None };
            g.explicit = l;
            Some(b.set_length(l))
        }
        1 => Some(b.reserve_capacity(1)),
        8 => Some(b.reserve_capacity(64)),
        2 => {
            let x: u8 = kani::any();
            g.push(x);
            ok(b.write_payload(x))
        }
        3 => {
            let x: u16 = kani::any();
            g.push((x >> 8) as u8);
            g.push((x & 0xFF) as u8);
            ok(b.write_payload(x))
        }
        4 => {
            let v: [u8; 2] = kani::any();
            g.push(v[0]);
            g.push(v[1]);
            ok(b.write_payload(&v[..]))
        }
        5 => {
            let t: u8 = kani::any();
            let v: [u8; 3] = kani::any();
            g.push(t);
            g.push(0);
            g.push(3);
            g.push(v[0]);
            g.push(v[1]);
            g.push(v[2]);
            ok(b.write_tlv(t, &v[..]))
        }
        6 => {
            // a batch is the same as writing its items one at a time
            let x: u8 = kani::any();
            let y: u8 = kani::any();
            g.push(x);
            g.push(y);
            ok(b.write_payloads([x, y]))
        }
        9 => {
            // a batch handed over as a lazy iterator whose size_hint lower bound is 0 (filter): the items that pass
            // the filter must be written, in order, exactly like single writes
            let x: u8 = kani::any();
            let y: u8 = kani::any();
            let z: u8 = kani::any();
            if x != z {
                g.push(x);
            }
            if y != z {
                g.push(y);
            }
            ok(b.write_payloads([x, y].into_iter().filter(move |v| *v != z)))
        }
        10 => {
            // an empty batch writes nothing (but, as the first write, still emits the fixed part at build)
            ok(b.write_payloads(core::iter::empty::<u8>()))
        }
        11 => {
            // a batch of references (blanket impl for &T), taken from a slice iterator
            let v: [u16; 2] = kani::any();
            g.push((v[0] >> 8) as u8);
            g.push((v[0] & 0xFF) as u8);
            g.push((v[1] >> 8) as u8);
            g.push((v[1] & 0xFF) as u8);
            ok(b.write_payloads(v.iter()))
        }
        7 => {
            // set_length with a definite value (Into<Option<u16>> for u16)
            let l: u16 = kani::any();
            g.explicit = Some(l);
            Some(b.set_length(l))
        }
        _ => Some(b),
    }
}

fn ok(r: std::io::Result<Builder>) -> Option<Builder> {
    match r {
        Ok(b) => Some(b),
        Err(e) => {
            forget(e);
            assert!(false, "a small write failed");
            None
        }
    }
}

pub fn finish(b: Builder, g: &Ghost, vc: u8, fp: u8) {
    let r = b.build();
    match r {
        Ok(out) => {
            // C10: signature, control bytes as given, length field, then the encodings in call order
            assert!(out.len() == 16 + g.n);
            if let Some(i) = crate::any_below(12) {
                assert!(out[i] == SIG[i]);
            }
            assert!(out[12] == vc);
            assert!(out[13] == fp);
            if let Some(i) = crate::any_below(g.n) {
                assert!(out[16 + i] == g.exp[i]);
            }
            // C09: explicit length in force, else the actual payload size
            let field = ((out[14] as usize) << 8) | out[15] as usize;
            match g.explicit {
                Some(l) => {
                    assert!(
                        field == l as usize,
                        "length field must equal the explicit length in force"
                    );
                }
                None => {
                    assert!(
                        field == g.n,
                        "length field must equal the actual payload size"
                    );
                }
            }
            kani::cover!(true, "history built and compared with the ghost");
            forget(out);
        }
        Err(e) => {
            forget(e);
            assert!(false, "build failed on a small payload");
        }
    }
}

pub fn run_new(ops: &[u8]) {
    let vc: u8 = kani::any();
    let fp: u8 = kani::any();
    let mut g = Ghost {
        explicit: None,
        exp: [0; GMAX],
        n: 0,
    };
    let mut b = Builder::new(vc, fp);
    let mut i = 0;
    while i < ops.len() {
        match step(b, ops[i], &mut g) {
            Some(nb) => b = nb,
            None => return,
        }
        i += 1;
    }
    finish(b, &g, vc, fp);
}

pub fn run_with_ipv4(ops: &[u8]) {
    let vc: u8 = kani::any();
    let (proto, pc) = crate::c07::any_protocol();
    let ab: [u8; 12] = kani::any();
    let a = IPv4::new(
        Ipv4Addr::new(ab[0], ab[1], ab[2], ab[3]),
        Ipv4Addr::new(ab[4], ab[5], ab[6], ab[7]),
        ((ab[8] as u16) << 8) | ab[9] as u16,
        ((ab[10] as u16) << 8) | ab[11] as u16,
    );
    let mut g = Ghost {
        explicit: None,
        exp: [0; GMAX],
        n: 0,
    };
    let mut k = 0;
    while k < 12 {
        g.push(ab[k]);
        k += 1;
    }
    let mut b = Builder::with_addresses(vc, proto, Addresses::IPv4(a));
    let mut i = 0;
    while i < ops.len() {
        match step(b, ops[i], &mut g) {
            Some(nb) => b = nb,
            None => return,
        }
        i += 1;
    }
    // family nibble taken from the address value
    finish(b, &g, vc, 0x10 | pc);
}

macro_rules! hist {
    ($name:ident, new, [$($op:expr),*]) => {
        #[kani::proof]
        #[kani::unwind(14)]
        pub(crate) fn $name() {
            run_new(&[$($op),*]);
        }
    };
    ($name:ident, ipv4, [$($op:expr),*]) => {
        #[kani::proof]
        #[kani::unwind(14)]
        pub(crate) fn $name() {
            run_with_ipv4(&[$($op),*]);
        }
    };
}

// hand-written: batches through lazy / empty / by-reference iterators (C10 "written one at a time or as a batch")
hist!(h1_batchlazy, new, [9]);
hist!(h2_u8_batchlazy, new, [2, 9]);
hist!(h2_batchempty_u8, new, [10, 2]);
hist!(h2_u8_batchempty, new, [2, 10]);
hist!(h2_batchref_u8, new, [11, 2]);
hist!(hv4_batchlazy, ipv4, [9]);

include!("c09_gen.rs");
