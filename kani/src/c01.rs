//! C01 (address-text clause, IPv4): std's `Ipv4Addr::from_str` - which ppp applies to the third and fourth
//! field - accepts exactly dotted-quad text without leading zeros and decodes it to the written octets.
//! (The v1 parser itself is Engine M's; there the std grammar is an uninterpreted function.)
use std::net::Ipv4Addr;

/// reference recogniser: four decimal octets 0..=255, no leading zeros, separated by single dots
fn ref_dotted_quad(s: &[u8]) -> Option<[u8; 4]> {
    let mut out = [0u8; 4];
    let mut part = 0usize;
    let mut digits = 0usize;
    let mut val: u32 = 0;
    let mut first_zero = false;
    let mut i = 0;
    while i < s.len() {
        let b = s[i];
        if b == b'.' {
            if digits == 0 || part == 3 {
                return None;
            }
            out[part] = val as u8;
            part += 1;
            digits = 0;
            val = 0;
            first_zero = false;
        } else if b >= b'0' && b <= b'9' {
            if first_zero {
                return None; // a leading zero followed by another digit
            }
            if digits == 0 && b == b'0' {
                first_zero = true;
            }
            digits += 1;
            if digits > 3 {
                return None;
            }
            val = val * 10 + (b - b'0') as u32;
            if val > 255 {
                return None;
            }
        } else {
            return None;
        }
        i += 1;
    }
    if part != 3 || digits == 0 {
        return None;
    }
    out[3] = val as u8;
    Some(out)
}

#[kani::proof]
#[kani::unwind(18)]
pub(crate) fn c01_ipv4_text_is_dotted_quad_16() {
    const N: usize = 16;
    let buf: [u8; N] = kani::any();
    let n: usize = kani::any();
    kani::assume(n <= N);
    let mut i = 0;
    while i < N {
        kani::assume(buf[i] < 0x80);
        i += 1;
    }
    let text: &str = unsafe { std::str::from_utf8_unchecked(&buf[..n]) };
    let real = text.parse::<Ipv4Addr>();
    let want = ref_dotted_quad(&buf[..n]);
    match (&real, want) {
        (Ok(a), Some(o)) => {
            assert!(a.octets() == o);
            kani::cover!(n == 15, "longest dotted quad");
            kani::cover!(n == 7, "shortest dotted quad");
        }
        (Err(_), None) => {
            kani::cover!(n == 16, "16-byte text rejected");
        }
        _ => assert!(
            false,
            "std's IPv4 text grammar differs from dotted-quad-without-leading-zeros"
        ),
    }
    core::mem::forget(real);
}

/// Engine M's model of `str::parse::<u16>` (mirsym/models.py `parse_u16`), transcribed to Rust, against the
/// real std function on every ASCII string of at most 8 bytes: same Ok value, same error kind.
#[derive(PartialEq, Eq, Debug, Clone, Copy)]
enum U16Model {
    Ok(u16),
    Empty,
    InvalidDigit,
    PosOverflow,
}

fn model_parse_u16(s: &[u8]) -> U16Model {
    let n = s.len();
    if n == 0 {
        return U16Model::Empty;
    }
    if n == 1 && (s[0] == b'+' || s[0] == b'-') {
        return U16Model::InvalidDigit;
    }
    let dstart = if s[0] == b'+' { 1 } else { 0 };
    // end of the leading run of digits
    let mut dend = dstart;
    while dend < n && s[dend] >= b'0' && s[dend] <= b'9' {
        dend += 1;
    }
    // first significant digit
    let mut z = dstart;
    while z < dend && s[z] == b'0' {
        z += 1;
    }
    let sig = dend - z;
    let mut val: u32 = 0;
    let mut k = 0;
    while k < 5 {
        if z + k < dend {
            val = val * 10 + (s[z + k] - b'0') as u32;
        }
        k += 1;
    }
    if sig > 5 || (sig == 5 && val > 65535) {
        return U16Model::PosOverflow;
    }
    if dend < n {
        return U16Model::InvalidDigit;
    }
    U16Model::Ok(val as u16)
}

#[kani::proof]
#[kani::unwind(10)]
pub(crate) fn c01_model_parse_u16_matches_std_8() {
    const N: usize = 8;
    let buf: [u8; N] = kani::any();
    let n: usize = kani::any();
    kani::assume(n <= N);
    let mut i = 0;
    while i < N {
        kani::assume(buf[i] < 0x80);
        i += 1;
    }
    let text: &str = unsafe { std::str::from_utf8_unchecked(&buf[..n]) };
    let real = text.parse::<u16>();
    let model = model_parse_u16(&buf[..n]);
    let real_m = match &real {
        Ok(v) => U16Model::Ok(*v),
        Err(e) => match e.kind() {
            std::num::IntErrorKind::Empty => U16Model::Empty,
            std::num::IntErrorKind::InvalidDigit => U16Model::InvalidDigit,
            std::num::IntErrorKind::PosOverflow => U16Model::PosOverflow,
            _ => U16Model::Empty,
        },
    };
    assert!(real_m == model);
    kani::cover!(matches!(model, U16Model::Ok(65535)), "65535 parsed");
    kani::cover!(
        matches!(model, U16Model::PosOverflow) && n == 5,
        "65536..99999 overflow"
    );
    kani::cover!(
        matches!(model, U16Model::InvalidDigit) && n == 8,
        "long invalid text"
    );
    kani::cover!(
        buf[0] == b'+' && matches!(model, U16Model::Ok(_)),
        "plus sign accepted by std"
    );
    core::mem::forget(real);
}
