//! C17 — v2 incomplete errors state exactly how many bytes are present and needed.
use crate::refmodel::*;
use ppp::v2::{Header, ParseError};
use ppp::PartialResult;

const N: usize = 240;

#[kani::proof]
#[kani::unwind(14)]
pub(crate) fn c17_counts_exact_240() {
    let buf: [u8; N] = kani::any();
    let n: usize = kani::any();
    kani::assume(n <= N);
    let r = Header::try_from(&buf[..n]);
    let want = ref_v2(&buf, n);
    match &r {
        Err(ParseError::Incomplete(k)) => {
            assert!(*k == n && n < 16);
            assert!(want == RefV2::Incomplete(n));
            kani::cover!(n == 0, "empty input incomplete");
            kani::cover!(n == 15, "15 bytes incomplete");
            kani::cover!(n >= 12, "signature complete, fixed part not");
        }
        Err(ParseError::Partial(have, need)) => {
            let len = (buf[14] as usize) * 256 + buf[15] as usize;
            assert!(*need == len);
            assert!(*have == n - 16);
            assert!(*have < *need);
            assert!(want == RefV2::Partial(n - 16, len));
            // supplying exactly the missing bytes (whatever their values: they are the
            // symbolic rest of buf) gives a success; fewer leaves it Partial with updated counts
            let m: usize = kani::any();
            if m > n && m <= N && m <= 16 + len {
                let r2 = Header::try_from(&buf[..m]);
                if m == 16 + len {
                    assert!(r2.is_ok());
                    kani::cover!(true, "completion turns Partial into success");
                } else {
                    match &r2 {
                        Err(ParseError::Partial(h2, n2)) => {
                            assert!(*h2 == m - 16 && *n2 == len);
                            kani::cover!(true, "still partial with updated counts");
                        }
                        _ => assert!(false, "fewer than the missing bytes must stay Partial"),
                    }
                }
                core::mem::forget(r2);
            }
            kani::cover!(n == N, "partial at the full buffer length");
            kani::cover!(len == 65535, "declared length 65535 partial");
            kani::cover!(*have == 0, "fixed part only");
        }
        _ => {
            assert!(!matches!(want, RefV2::Incomplete(_) | RefV2::Partial(..)));
        }
    }
    // is_incomplete is exactly those two
    let inc = matches!(want, RefV2::Incomplete(_) | RefV2::Partial(..));
    assert!(r.is_incomplete() == inc);
    assert!(r.is_complete() == !inc);
    core::mem::forget(r);
}
